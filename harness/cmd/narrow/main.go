// Command narrow rewrites counts/counts.go of the tree under test into a
// width-narrowed copy (uint32->uint8, uint64->uint16, MaxUint32->MaxUint8,
// MaxUint64->MaxUint16, package ncounts) so that its arithmetic can be run
// over ALL operand pairs.  usage: narrow <counts.go> <out.go>
package main

import (
	"fmt"
	"go/ast"
	"go/format"
	"go/parser"
	"go/token"
	"os"
)

func main() {
	fset := token.NewFileSet()
	f, err := parser.ParseFile(fset, os.Args[1], nil, parser.ParseComments)
	if err != nil {
		fmt.Fprintln(os.Stderr, err)
		os.Exit(1)
	}
	f.Name.Name = "ncounts"
	n := 0
	ren := map[string]string{"uint32": "uint8", "uint64": "uint16", "MaxUint32": "MaxUint8", "MaxUint64": "MaxUint16"}
	ast.Inspect(f, func(nd ast.Node) bool {
		if id, ok := nd.(*ast.Ident); ok {
			if to, ok := ren[id.Name]; ok {
				id.Name = to
				n++
			}
		}
		return true
	})
	out, err := os.Create(os.Args[2])
	if err != nil {
		fmt.Fprintln(os.Stderr, err)
		os.Exit(1)
	}
	defer out.Close()
	if err := format.Node(out, fset, f); err != nil {
		fmt.Fprintln(os.Stderr, err)
		os.Exit(1)
	}
	fmt.Printf("%d\n", n)
}
