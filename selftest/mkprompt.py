#!/usr/bin/env python3
"""Writes the task description for a sub-agent that seeds a property-breaking change.
usage: mkprompt.py <Cnn> <worktree dir> <trigger kind 0-4> <out file> [extra 'avoid' descriptions ...]
The sub-agent gets the property text, its own scratch worktree and one-line descriptions of the changes already seeded for
that property (from seeded/Cnn-*/README.md first lines) - nothing else from /verif."""
import glob, json, os, sys
pid, wdir, kind, outp = sys.argv[1], sys.argv[2], int(sys.argv[3]), sys.argv[4]
extra = sys.argv[5:]
KINDS = ["a particular interleaving or timing between goroutines / the git child processes",
         "a fault, crash or error return at one particular point (a git child failing, a short read, a write error, a missing object)",
         "a multi-step sequence of operations or a combination of several options / configuration entries / environment settings",
         "an unusual but legal input (repository shape, object contents, names, sizes, counts at a boundary)",
         "two cooperating source sites that each look fine alone"]
prop = None
for l in open("/verif/properties.jsonl"):
    j = json.loads(l)
    if j["id"] == pid:
        prop = j
text = "Title: %s\nStatement: %s\nQuantified over: %s" % (prop["title"], prop["statement"], prop["quantifier"]["text"])
prev = []
for d in sorted(glob.glob("/verif/seeded/%s-*" % pid)):
    first = open(os.path.join(d, "README.md")).readline().strip().lstrip("# ").strip()
    try:
        need = json.load(open(os.path.join(d, "meta.json"))).get("needs_to_manifest")
    except Exception:
        need = None
    prev.append(first + (" [it needs: %s]" % need if need else ""))
prev += extra
avoid = "; ".join("(%d) %s" % (i + 1, p) for i, p in enumerate(prev))
T = """You are working in a scratch git worktree of the open-source Go program github/git-sizer located at @DIR@ (a CLI that scans a local Git repository through git subprocesses and reports size metrics). The sandbox is offline: before any go command run `export GOFLAGS=-mod=mod GOPROXY=off GOSUMDB=off GOTOOLCHAIN=local`. Work ONLY inside @DIR@ (and /tmp for throw-away files, which you remove when done). Do NOT read, list or write anything under /verif or /repo, and do not use git commands that touch other worktrees.

Here is a semantic property that git-sizer is supposed to satisfy:

--- PROPERTY @PID@ ---
@PROP@
--- END ---

Your task: make a small (ideally under 30 changed lines), realistic change to the git-sizer source code in @DIR@ that BREAKS this property - i.e. after your change some execution exists in which the statement above is false as literally written (a change that merely alters behaviour the statement leaves open does not count) - such that
 (1) it still compiles: `go build ./...`
 (2) the existing test suite still passes: `go test -vet=off -count=1 ./...` (NOTE: the three tests TestExec, TestRefSelections and TestRefgroups fail even on the unchanged tree because bin/git-sizer does not exist - ignore those three; every other test must still pass),
 (3) the breakage needs something specific to manifest; the trigger MUST be of this kind: @KIND@. (Other kinds of trigger are covered by other engineers.) It must NOT be something that ordinary use on an ordinary repository would expose at once.
The change should look like a plausible bug a developer could introduce (a refactoring slip, a wrong boundary, a missed case, an optimisation that is wrong in a corner case), not sabotage.

other engineers already produced these changes for this property: @AVOID@. Yours must be clearly DIFFERENT from all of them: a different source site and a different mechanism.

Also write a demonstration - a Go test file and/or a small shell/Python script - that FAILS (non-zero exit) with your change and PASSES (exit 0) on the unchanged source, runnable from the top of the worktree as a single command. (git 2.39 and python3 are available; you can build the binary with `go build -o /tmp/<something>/git-sizer .`; note the default build prints progress to stderr unless you pass --no-progress.)

Deliverables, all inside @DIR@/MUTANT/ :
 - patch.diff : `git diff` of your source change only (must apply with `git apply` to a clean checkout of the same commit; do not include the demonstration or the MUTANT directory in it)
 - the demonstration file(s)
 - README.md : first line = a one-line title of the change; then which clause of the property breaks, exactly what is needed for it to manifest, how to run the demonstration, and what it prints with and without the patch.
Before finishing, verify yourself: build OK, test suite OK (apart from the three known failures), demonstration fails with the patch and passes without it (use `git apply -R` to check the unpatched behaviour, then re-apply). Leave the worktree with your patch applied. In your final answer give a 5-10 line summary (what you changed, what it needs to manifest, how you verified).
"""
open(outp, "w").write(T.replace("@DIR@", wdir).replace("@PID@", pid).replace("@PROP@", text).replace("@KIND@", KINDS[kind]).replace("@AVOID@", avoid))
print(outp, len(prev), "earlier changes listed")
