"""C04 Checkout metrics equal the recursive expansion of the worst tree."""
from ._camp import run_campaign, api_delay_stage
from .. import oracle as _O

LEVEL = "exploration"


def run(chk, b, tier):
    n = 200 if tier == "quick" else 15000

    def nt(f):
        return ["objects>=4"] if f["objects"] >= 4 else []

    run_campaign(chk, b, ["trees", "trees", "general", "hostile-names"], n, ["checkout"], "C04", nt,
                 "tree-DAG generator (deep chains, wide trees, symlink / gitlink heavy subtrees, shared subtrees under "
                 "several names, empty subtrees, trees reachable only through a tag / ref / ROOT); the 7 checkout numbers "
                 "vs a memoised big-integer DP, each dimension maximised independently. Non-trivial: >=4 reachable objects.",
                 permute=0.3)
    api_delay_stage(chk, b, _O.CHECKOUT_KEYS + (["reference_count"] if "C04" == "C01" else []), "C04", 6 if tier == "quick" else 150)
    chk.assumptions += ["reference model and generator trusted; generator self-checked against git"]
