"""Check scaffolding: verdicts, known findings, evidence, replay files."""
import json
import os
import sys
import time
import traceback

from . import run as R

VERIF = R.VERIF


def load_findings():
    p = os.path.join(VERIF, "known_findings.json")
    if not os.path.exists(p):
        return []
    with open(p) as f:
        return json.load(f).get("findings", [])


class Check:
    def __init__(self, pid, tier, level="exploration"):
        self.pid = pid
        self.tier = tier
        self.level = level
        self.seed = R.SEED
        self.t0 = time.time()
        self.violations = {}       # signature -> first detail
        self.violation_counts = {}
        self.known_hits = {}       # finding id -> count
        self.cov = {"evaluations": 0, "distinct_nontrivial": 0, "rule": "", "samples": []}
        self.assumptions = []
        self.inconclusive = []
        self.findings = [f for f in load_findings() if f.get("property") == pid and f.get("status") == "known"]
        self._distinct = set()

    # -- coverage -----------------------------------------------------------
    def count(self, n=1):
        self.cov["evaluations"] += n

    def nontrivial(self, key):
        """Register a distinct non-trivial case (key hashed)."""
        self._distinct.add(key if isinstance(key, (str, int, tuple)) else repr(key))

    def sample(self, s, limit=8):
        if len(self.cov["samples"]) < limit:
            self.cov["samples"].append(s)

    def bump(self, key, n=1):
        self.cov[key] = self.cov.get(key, 0) + n

    # -- verdicts -----------------------------------------------------------
    def violation(self, signature, detail):
        """signature: stable string built from the failing clause and the discriminating facts."""
        for f in self.findings:
            if _sig_matches(f["signature"], signature):
                self.known_hits[f["id"]] = self.known_hits.get(f["id"], 0) + 1
                return False
        self.violation_counts[signature] = self.violation_counts.get(signature, 0) + 1
        if signature not in self.violations:
            self.violations[signature] = detail
        return True

    def inconc(self, msg):
        self.inconclusive.append(msg)

    # -- finish -------------------------------------------------------------
    def finish(self):
        wall = time.time() - self.t0
        self.cov["distinct_nontrivial"] = max(self.cov.get("distinct_nontrivial", 0), len(self._distinct))
        ev = {
            "property_id": self.pid, "tier": self.tier, "seed": self.seed, "level": self.level,
            "coverage": self.cov, "assumptions": self.assumptions, "wall_s": round(wall, 2),
            "violations": len(self.violations),
        }
        if self.known_hits:
            ev["coverage"]["known_findings_hit"] = self.known_hits
        if self.inconclusive:
            ev["coverage"]["inconclusive"] = self.inconclusive[:20]
        evdir = os.path.join(VERIF, "evidence")
        if R.REPO != "/repo":
            # self-test runs against a scratch copy never touch the committed evidence
            evdir = os.path.join(VERIF, "build", "selftest-evidence")
        os.makedirs(evdir, exist_ok=True)
        tmp = os.path.join(evdir, ".%s.%d.tmp" % (self.pid, os.getpid()))
        with open(tmp, "w") as f:
            json.dump(ev, f, indent=1, default=_default, sort_keys=True)
            f.write("\n")
        os.replace(tmp, os.path.join(evdir, self.pid + ".json"))
        for f in self.findings:
            if f["id"] in self.known_hits:
                print("KNOWN-FINDING: property=%s %s (%s; seen %d times in this run)" % (
                    self.pid, f["what"], f["id"], self.known_hits[f["id"]]))
        rc = 0
        if self.violations:
            rdir = os.path.join(VERIF, "replays" if R.REPO == "/repo" else "build/selftest-replays", self.pid)
            os.makedirs(rdir, exist_ok=True)
            for i, (sig, detail) in enumerate(sorted(self.violations.items())):
                path = os.path.join(rdir, "%s-%s-seed%d-%d.json" % (self.pid, self.tier, self.seed, i))
                with open(path, "w") as f:
                    json.dump({"property": self.pid, "signature": sig, "count": self.violation_counts[sig],
                               "seed": self.seed, "tier": self.tier, "detail": detail}, f, indent=1, default=_default)
                print("VIOLATION property=%s replay=%s" % (self.pid, path))
                print("  signature: %s" % sig)
                print("  detail: %s" % (json.dumps(detail, default=_default)[:1500]))
            rc = 1
        elif self.inconclusive:
            print("INCONCLUSIVE property=%s: %s" % (self.pid, "; ".join(self.inconclusive[:5])))
            rc = 3
        print("%s %s seed=%d: evaluations=%d distinct_nontrivial=%d violations=%d known=%d wall=%.1fs" % (
            self.pid, self.tier, self.seed, self.cov["evaluations"], self.cov["distinct_nontrivial"],
            len(self.violations), sum(self.known_hits.values()), wall))
        return rc


def _default(o):
    if isinstance(o, bytes):
        try:
            return o.decode("utf-8")
        except UnicodeDecodeError:
            return "b64:" + __import__("base64").b64encode(o).decode()
    if isinstance(o, set):
        return sorted(o)
    return repr(o)


def _sig_matches(pattern, signature):
    """A known-finding signature is an exact string or a prefix ending in '*'."""
    if pattern.endswith("*"):
        return signature.startswith(pattern[:-1])
    return pattern == signature


def main_wrapper(pid, fn, tier, level="exploration"):
    """Run fn(check, build) with build cleanup; map exceptions to exit 3."""
    chk = Check(pid, tier, level)
    b = R.Build()
    try:
        fn(chk, b)
        rc = chk.finish()
    except R.Inconclusive as e:
        print("INCONCLUSIVE property=%s: %s" % (pid, e))
        rc = 3
    except Exception:
        traceback.print_exc()
        print("INCONCLUSIVE property=%s: harness exception" % pid)
        rc = 3
        if chk.violations:
            # violations observed before the harness failed are still reported
            chk.inconc("harness exception after violations were observed")
            try:
                rc = chk.finish()
            except Exception:
                traceback.print_exc()
    finally:
        b.cleanup()
    return rc
