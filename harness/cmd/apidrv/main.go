// Command apidrv links the real git-sizer packages and executes them on cases
// read from stdin (JSON lines); observations go to stdout (JSON lines).  The
// python side is the oracle, except for the two high-volume pure-function
// sub-commands (counts-bulk, human-bulk) which carry an integer-only reference.
package main

import (
	"bufio"
	"encoding/base64"
	"encoding/json"
	"fmt"
	"os"
	"runtime/debug"
	"sync"
)

type rawCase = map[string]json.RawMessage

var out *bufio.Writer

func emit(v interface{}) {
	b, err := json.Marshal(v)
	if err != nil {
		b, _ = json.Marshal(map[string]string{"error": "marshal: " + err.Error()})
	}
	out.Write(b)
	out.WriteByte('\n')
}

func b64(s string) []byte {
	b, err := base64.StdEncoding.DecodeString(s)
	if err != nil {
		panic("bad base64 in case")
	}
	return b
}

// guard runs f, converting a panic into an observation.
func guard(id interface{}, f func() map[string]interface{}) {
	var res map[string]interface{}
	func() {
		defer func() {
			if r := recover(); r != nil {
				res = map[string]interface{}{"panic": fmt.Sprint(r), "stack": string(debug.Stack())}
			}
		}()
		res = f()
	}()
	if res == nil {
		res = map[string]interface{}{}
	}
	res["id"] = id
	emit(res)
}

func forEachCase(f func(id interface{}, c rawCase) map[string]interface{}) {
	in := bufio.NewReaderSize(os.Stdin, 1<<20)
	logf := os.Getenv("APIDRV_CASELOG")
	var lf *os.File
	if logf != "" {
		lf, _ = os.Create(logf)
	}
	for {
		line, err := in.ReadBytes('\n')
		if len(line) > 1 {
			if lf != nil {
				lf.Truncate(0)
				lf.WriteAt(line, 0)
			}
			var c rawCase
			if e := json.Unmarshal(line, &c); e != nil {
				emit(map[string]string{"error": "bad case: " + e.Error()})
			} else {
				var id interface{}
				if r, ok := c["id"]; ok {
					json.Unmarshal(r, &id)
				}
				guard(id, func() map[string]interface{} { return f(id, c) })
			}
		}
		if err != nil {
			break
		}
	}
}

// forEachCaseConcurrent reads all cases, evaluates them with `workers` goroutines and emits the observations in input order.
func forEachCaseConcurrent(f func(id interface{}, c rawCase) map[string]interface{}, workers int) {
	in := bufio.NewReaderSize(os.Stdin, 1<<20)
	var cases []rawCase
	for {
		line, err := in.ReadBytes('\n')
		if len(line) > 1 {
			var c rawCase
			if e := json.Unmarshal(line, &c); e == nil {
				cases = append(cases, c)
			}
		}
		if err != nil {
			break
		}
	}
	results := make([]map[string]interface{}, len(cases))
	var wg sync.WaitGroup
	next := make(chan int)
	for w := 0; w < workers; w++ {
		wg.Add(1)
		go func() {
			defer wg.Done()
			for i := range next {
				c := cases[i]
				var id interface{}
				if r, ok := c["id"]; ok {
					json.Unmarshal(r, &id)
				}
				var res map[string]interface{}
				func() {
					defer func() {
						if r := recover(); r != nil {
							res = map[string]interface{}{"panic": fmt.Sprint(r), "stack": string(debug.Stack())}
						}
					}()
					res = f(id, c)
				}()
				if res == nil {
					res = map[string]interface{}{}
				}
				res["id"] = id
				results[i] = res
			}
		}()
	}
	for i := range cases {
		next <- i
	}
	close(next)
	wg.Wait()
	for _, r := range results {
		emit(r)
	}
}

func main() {
	out = bufio.NewWriterSize(os.Stdout, 1<<20)
	defer out.Flush()
	if len(os.Args) < 2 {
		fmt.Fprintln(os.Stderr, "usage: apidrv <subcommand>")
		os.Exit(2)
	}
	switch os.Args[1] {
	case "counts-eval":
		forEachCase(countsEval)
	case "counts-bulk":
		countsBulk(os.Args[2:])
	case "human-eval":
		forEachCase(humanEval)
	case "human-bulk":
		humanBulk(os.Args[2:])
	case "output":
		forEachCase(outputCase)
	case "graph":
		forEachCase(graphCase)
	case "meter":
		forEachCase(meterCase)
	case "config":
		forEachCase(configCase)
	case "parse":
		// the parsers are pure functions: cases are evaluated by several goroutines at once
		forEachCaseConcurrent(parseCase, 6)
	case "filter":
		forEachCase(filterCase)
	case "scan":
		forEachCase(scanCase)
	default:
		fmt.Fprintln(os.Stderr, "unknown subcommand")
		os.Exit(2)
	}
}
