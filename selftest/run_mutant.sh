#!/bin/bash
# usage: selftest/run_mutant.sh <patch-file> <Cnn> [tier]   -> runs the check against a scratch worktree with the patch
# applied (outside /repo and /verif, removed afterwards); prints the last lines of the check and its exit status.
set -u
patch=$(readlink -f "$1"); prop=$2; tier=${3:-quick}
wt=$(mktemp -d /tmp/mut-XXXXXX)
rmdir "$wt"
git -C /repo worktree add -q --detach "$wt" HEAD || exit 9
trap 'git -C /repo worktree remove --force "$wt" >/dev/null 2>&1; rm -rf "$wt"' EXIT
if ! git -C "$wt" apply "$patch"; then echo "PATCH DOES NOT APPLY"; exit 8; fi
(cd "$wt" && GOFLAGS=-mod=mod GOPROXY=off GOSUMDB=off GOTOOLCHAIN=local go build ./... ) || { echo "MUTANT DOES NOT BUILD"; exit 7; }
cd /verif
VERIF_REPO="$wt" ./check "$prop" --tier "$tier" > "$wt.log" 2>&1
rc=$?
grep -E "^VIOLATION|signature:|^INCONCLUSIVE|^KNOWN" "$wt.log" | head -8
tail -1 "$wt.log"
rm -f "$wt.log"
echo "exit=$rc"
exit $rc
