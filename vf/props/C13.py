"""C13 The repository measured is the real one, however it is addressed."""
import os
import random
import shutil
import subprocess

from .. import gen as G
from .. import oracle as O
from .. import parse_out as P
from .. import run as R
from .C10 import report_shaped

LEVEL = "exploration"


def gitc(cwd, *args, env=None, check=True):
    p = subprocess.run([G.REAL_GIT] + list(args), cwd=cwd, env=G.git_env(env), stdout=subprocess.PIPE, stderr=subprocess.PIPE)
    if check and p.returncode != 0:
        raise RuntimeError("git %r: %s" % (args, p.stderr[:300]))
    return p


def one_case(arg):
    seed, idx, sz, scratch, shimdir = arg
    rng = random.Random("C13|%d|%d" % (seed, idx))
    d = os.path.join(scratch, "a%d" % idx)
    os.makedirs(d)
    out = {"viol": [], "evals": 0, "modes": [], "sample": None, "replace_nontrivial": False, "graft_nontrivial": False,
           "shallow": 0, "inconc": []}
    try:
        m = G.random_model(rng, size=rng.choice(["small", "medium"]), hostile_names=False, noise=True)
        if not m.commits:
            return out
        m.bare = False
        # --- replacement refs and grafts (written before the first run; they must never matter)
        kind = rng.choice(["none", "replace", "graft", "both"])
        pool = m.pool
        if kind in ("replace", "both"):
            victims = rng.sample(m.commits, min(len(m.commits), 2))
            for v in victims:
                how = rng.choice(["commit-other-tree", "commit-more-parents", "tree", "blob"])
                if how == "commit-other-tree":
                    rep = G.Commit(pool.new_tree(max_depth=2), v.parents, msg=b"replacement\n")
                    m.refs["refs/replace/" + v.oid] = rep
                elif how == "commit-more-parents":
                    extra = G.Commit(pool.new_tree(max_depth=1), [], msg=b"grafted root\n")
                    rep = G.Commit(v.tree, v.parents + [extra], msg=b"replacement with more parents\n")
                    m.refs["refs/replace/" + v.oid] = rep
                elif how == "tree":
                    rep = G.Tree([G.Entry(G.FILE, b"replaced-%d" % j, pool.new_blob(2000)) for j in range(5)])
                    m.refs["refs/replace/" + v.tree.oid] = rep
                else:
                    blobs = [e.child for e in v.tree.entries if e.kind in (G.FILE, G.EXEC)]
                    if blobs:
                        m.refs["refs/replace/" + blobs[0].oid] = pool.new_blob(50000)
        explicit_cfg = kind in ("replace", "both") and rng.random() < 0.5
        if explicit_cfg:
            # the default spelled out in the repository's configuration
            m.config = (m.config or "") + "[core]\n\tuseReplaceRefs = true\n"
        work = os.path.join(d, "repo")
        gitdir = G.write_model(m, work)
        if kind in ("graft", "both") and len(m.commits) >= 2:
            lines = []
            for _ in range(rng.randint(1, 2)):
                c = rng.choice(m.commits)
                others = [x for x in m.commits if x is not c]
                how = rng.choice(["add", "drop", "redirect"])
                if how == "add":
                    ps = [p.oid for p in c.parents] + [rng.choice(others).oid]
                elif how == "drop":
                    ps = []
                else:
                    ps = [rng.choice(others).oid]
                lines.append(" ".join([c.oid] + ps))
            with open(os.path.join(gitdir, "info", "grafts"), "w") as f:
                f.write("\n".join(lines) + "\n")
        # controls (git itself honouring replacement / grafts must see a different graph, else the case is trivial)
        a = gitc(work, "--no-replace-objects", "rev-list", "--objects", "--all", env={"GIT_GRAFT_FILE": "/dev/null"}, check=False)
        b_ = gitc(work, "rev-list", "--objects", "--all", check=False)
        if a.returncode == 0 and b_.returncode == 0 and a.stdout != b_.stdout:
            if kind in ("replace", "both"):
                out["replace_nontrivial"] = True
            if kind in ("graft", "both"):
                out["graft_nontrivial"] = True
        # --- addressing modes
        sub = os.path.join(work, "sub", "deeper")
        os.makedirs(sub)
        bare = os.path.join(d, "bare.git")
        shutil.copytree(gitdir, bare)
        cfgp = os.path.join(bare, "config")
        open(cfgp, "w").write(open(cfgp).read().replace("bare = false", "bare = true"))
        bindir = os.path.join(d, "bin")
        os.makedirs(bindir)
        os.symlink(sz, os.path.join(bindir, "git-sizer"))
        link = os.path.join(d, "link-to-repo")
        os.symlink(work, link)
        unrelated = os.path.join(d, "unrelated", "cwd")
        os.makedirs(unrelated)
        argv = ["--json", "--no-progress"]
        modes = [
            ("top", work, [sz] + argv, {}),
            ("subdir", sub, [sz] + argv, {}),
            ("dot-git", gitdir, [sz] + argv, {}),
            ("bare-copy", bare, [sz] + argv, {}),
            ("GIT_DIR-absolute", unrelated, [sz] + argv, {"GIT_DIR": gitdir}),
            ("GIT_DIR-relative", unrelated, [sz] + argv, {"GIT_DIR": os.path.relpath(gitdir, unrelated)}),
            ("git -C", unrelated, [G.REAL_GIT, "-C", work, "sizer"] + argv, {"PATH": bindir + ":/usr/bin:/bin"}),
            ("git -C subdir", d, [G.REAL_GIT, "-C", "repo/sub", "sizer"] + argv, {"PATH": bindir + ":/usr/bin:/bin"}),
            ("symlinked-path", link, [sz] + argv, {}),
        ]
        # a symlink whose target has a different parent than the link; the shell's logical $PWD is the link path
        elsewhere = os.path.join(d, "elsewhere", "x", "y")
        os.makedirs(os.path.dirname(elsewhere))
        os.symlink(sub, elsewhere)          # elsewhere/x/y -> repo/sub/deeper
        modes.append(("symlinked-cwd+relative-GIT_DIR-with-dotdot", elsewhere, [sz] + argv,
                      {"PWD": elsewhere, "GIT_DIR": "../../.git"}))
        modes.append(("symlinked-cwd-logical-PWD", elsewhere, [sz] + argv, {"PWD": elsewhere}))
        # a decoy repository where the lexically joined path would point
        # the object store addressed through the environment: objects moved out of the git dir entirely, or half of them
        # available only through an alternate named by the environment
        od = os.path.join(d, "odir.git")
        shutil.copytree(gitdir, od)
        moved = os.path.join(d, "moved-objects")
        shutil.move(os.path.join(od, "objects"), moved)
        os.makedirs(os.path.join(od, "objects"))
        modes.append(("GIT_OBJECT_DIRECTORY", unrelated, [sz] + argv, {"GIT_DIR": od, "GIT_OBJECT_DIRECTORY": moved}))
        ad = os.path.join(d, "adir.git")
        shutil.copytree(gitdir, ad)
        altstore = os.path.join(d, "env-alternate")
        os.makedirs(altstore)
        k_ = 0
        for dp, dns, fns in os.walk(os.path.join(ad, "objects")):
            for fn in fns:
                if len(os.path.basename(dp)) == 2 and len(fn) == 38:
                    k_ += 1
                    if k_ % 2:
                        os.makedirs(os.path.join(altstore, os.path.basename(dp)), exist_ok=True)
                        os.rename(os.path.join(dp, fn), os.path.join(altstore, os.path.basename(dp), fn))
        modes.append(("GIT_ALTERNATE_OBJECT_DIRECTORIES", unrelated, [sz] + argv, {"GIT_DIR": ad, "GIT_ALTERNATE_OBJECT_DIRECTORIES": altstore}))
        # started inside ANOTHER (bare) repository while GIT_DIR names the one to measure
        decoy = os.path.join(d, "decoy.git")
        dm = G.random_model(random.Random("C13decoy|%d|%d" % (seed, idx)), size="small", hostile_names=False, noise=False)
        G.write_model(dm, decoy)
        modes.append(("GIT_DIR-from-inside-another-bare-repository", decoy, [sz] + argv, {"GIT_DIR": gitdir}))
        modes.append(("git --git-dir from inside another bare repository", decoy, [G.REAL_GIT, "--git-dir", gitdir, "sizer"] + argv,
                      {"PATH": bindir + ":/usr/bin:/bin"}))
        gf = os.path.join(d, "gitfile-wt")
        os.makedirs(os.path.join(gf, "inner"))
        with open(os.path.join(gf, ".git"), "w") as f:
            f.write("gitdir: %s\n" % gitdir)
        modes.append(("gitfile", gf, [sz] + argv, {}))
        modes.append(("gitfile-subdir", os.path.join(gf, "inner"), [sz] + argv, {}))
        modes.append(("GIT_DIR+GIT_WORK_TREE", unrelated, [sz] + argv, {"GIT_DIR": gitdir, "GIT_WORK_TREE": work}))
        # the caller switches replace references ON by command-line configuration (git -c ... sizer hands it down in
        # GIT_CONFIG_PARAMETERS) or by environment configuration: what is measured is still the stored graph
        modes.append(("git -c core.useReplaceRefs=true sizer", work, [G.REAL_GIT, "-c", "core.useReplaceRefs=true", "sizer"] + argv,
                      {"PATH": bindir + ":/usr/bin:/bin"}))
        modes.append(("GIT_CONFIG_PARAMETERS core.useReplaceRefs=true", work, [sz] + argv,
                      {"GIT_CONFIG_PARAMETERS": "'core.useReplaceRefs=true' 'core.useReplaceRefs=true'"}))
        modes.append(("GIT_CONFIG_COUNT core.useReplaceRefs=true", work, [sz] + argv,
                      {"GIT_CONFIG_COUNT": "1", "GIT_CONFIG_KEY_0": "core.useReplaceRefs", "GIT_CONFIG_VALUE_0": "true"}))
        # linked worktree (created before the read-only observations; does not change objects or refs/)
        wt = os.path.join(d, "wt")
        p = gitc(work, "worktree", "add", "--detach", "--no-checkout", wt, m.commits[0].oid, check=False)
        if p.returncode == 0:
            modes.append(("linked-worktree", wt, [sz] + argv, {}))
            os.makedirs(os.path.join(wt, "x", "y"), exist_ok=True)
            modes.append(("linked-worktree-subdir", os.path.join(wt, "x", "y"), [sz] + argv, {}))
        else:
            out["inconc"].append("worktree add failed: %r" % p.stderr[:100])
        outs = {}
        for name, cwd, cmd, env in modes:
            r = R.run_proc(cmd, cwd, R.base_env(env), timeout=60, tmpdir=d)
            out["evals"] += 1
            if r.rc != 0 or r.timed_out:
                out["viol"].append(("C13/addressing/run-failed/" + name, {"rc": r.rc, "stderr": r.err[-300:], "repo": [seed, idx]}))
                continue
            outs[name] = r.out
        out["modes"] = sorted(outs)
        if outs:
            ref = outs.get("top") or list(outs.values())[0]
            for name, o in outs.items():
                if o != ref:
                    out["viol"].append(("C13/addressing/report-differs/" + name, {"repo": [seed, idx], "first_diff": _first_diff(ref, o)}))
            js, probs = P.parse_json(ref)
            if js is None:
                out["viol"].append(("C13/bad-json", {"problems": probs}))
            else:
                ex = O.compute(list(m.refs.values()))
                bad = O.compare_numeric(ex, js, [k for k in O.CAPS if k != "reference_count"])
                if bad:
                    which = ("replace" if kind in ("replace", "both") else "") + ("graft" if kind in ("graft", "both") else "")
                    if explicit_cfg:
                        which += "/core.useReplaceRefs=true-in-config"
                    out["viol"].append(("C13/stored-graph/values-differ-from-stored-objects/" + (which or "plain"),
                                        {"repo": [seed, idx], "kind": kind, "diffs": bad[:5]}))
                out["sample"] = {"modes": sorted(outs), "kind": kind, "unique_commit_count": js.get("unique_commit_count"),
                                 "replace_refs": [r for r in m.refs if r.startswith("refs/replace/")][:2]}
        if idx % 4 == 2:
            # the children that discover the repository dying silently at every point, while the current directory is a
            # different repository: success must still mean the repository GIT_DIR names
            R.fault_sweep(R.Collector(out), "C13", sz, decoy, argv, shimdir, d, env={"GIT_DIR": gitdir}, only=["rev-parse"])
        if idx % 4 == 1:
            class _C:
                def count(self, n=1): out["evals"] += n
                def bump(self, *a): pass
                def violation(self, sig, det): out["viol"].append((sig, det))
            R.fault_probe(_C(), "C13", sz, sub, argv, rng, shimdir, d, n=3, env={"GIT_DIR": "../../.git"})
        # --- explicit ROOTs that navigate THROUGH replaced / grafted objects (rev~1, rev^, rev^{tree}): what they name
        # must be decided on the stored objects as well
        if kind != "none":
            grafted = set()
            gp = os.path.join(gitdir, "info", "grafts")
            if os.path.exists(gp):
                grafted = {ln.split()[0] for ln in open(gp).read().splitlines() if ln.strip()}
            replaced = {r[len("refs/replace/"):] for r in m.refs if r.startswith("refs/replace/")}
            for c in m.commits:
                if c.oid not in grafted and c.oid not in replaced:
                    continue
                cases_ = [(c.oid + "^{tree}", c.tree)]
                if c.parents:
                    cases_ += [(c.oid + "~1", c.parents[0]), (c.oid + "^", c.parents[0])]
                    if len(c.parents) > 1:
                        cases_.append((c.oid + "^2", c.parents[1]))
                for sp, obj in cases_:
                    if not os.path.exists(os.path.join(gitdir, "objects", c.oid[:2], c.oid[2:])):
                        continue
                    r = R.sizer(sz, work, argv + [sp], tmpdir=d)
                    out["evals"] += 1
                    if r.rc != 0:
                        out["viol"].append(("C13/stored-graph/root-through-replaced-object/run-failed", {"root": sp, "stderr": r.err[-300:]}))
                        continue
                    jr, _ = P.parse_json(r.out)
                    exr = O.compute([obj])
                    bad = O.compare_numeric(exr, jr or {}, [k for k in O.CAPS if k != "reference_count"])
                    if bad:
                        out["viol"].append(("C13/stored-graph/root-through-replaced-object/values-differ" + ("/core.useReplaceRefs=true-in-config" if explicit_cfg else ""),
                                            {"root": sp, "kind": kind, "diffs": bad[:4]}))
                    out["root_through"] = out.get("root_through", 0) + 1
        # --- a repository whose path contains a line feed (git prints such paths verbatim), with another repository sitting
        # at the path that ends where the line feed is
        if idx % 4 == 1:
            lfw = os.path.join(d, "proj\nv2")
            shutil.copytree(work, lfw, symlinks=True)
            shutil.copytree(decoy, os.path.join(d, "proj"))
            os.makedirs(os.path.join(lfw, "s", "t"), exist_ok=True)
            lfg = os.path.join(lfw, ".git")
            outs_l = {}
            for name, cwd, cmd, env in [("top", lfw, [sz] + argv, {}), ("subdir", os.path.join(lfw, "s", "t"), [sz] + argv, {}),
                                        ("GIT_DIR-absolute", unrelated, [sz] + argv, {"GIT_DIR": lfg}),
                                        ("git -C", unrelated, [G.REAL_GIT, "-C", lfw, "sizer"] + argv, {"PATH": bindir + ":/usr/bin:/bin"}),
                                        ("dot-git", lfg, [sz] + argv, {})]:
                r = R.run_proc(cmd, cwd, R.base_env(env), timeout=60, tmpdir=d)
                out["evals"] += 1
                if r.rc != 0:
                    out["viol"].append(("C13/addressing/run-failed/path-with-line-feed/" + name, {"rc": r.rc, "stderr": r.err[-300:].decode("utf-8", "replace")}))
                else:
                    outs_l[name] = r.out
            for name, o in outs_l.items():
                if o != ref_out_for_lf(outs, o):
                    out["viol"].append(("C13/addressing/report-differs/path-with-line-feed/" + name, {"first_diff": _first_diff(ref_out_for_lf(outs, o), o)}))
        # --- a repository without any reference, HEAD detached, and a linked worktree whose HEAD is detached elsewhere:
        # nothing is selected, so every way of addressing it gives the same (empty) report
        if idx % 4 == 3 and len(m.commits) >= 2:
            nm = G.Model()
            nm.bare = False
            nm.head = m.commits[0]
            nm.noise = [m.commits[-1]]
            nr = os.path.join(d, "norefs")
            nrg = G.write_model(nm, nr)
            nwt = os.path.join(d, "norefs-wt")
            p = gitc(nr, "worktree", "add", "--detach", "--no-checkout", nwt, m.commits[-1].oid, check=False)
            outs_n = {}
            for name, cwd, cmd, env in [("top", nr, [sz] + argv, {}), ("linked-worktree", nwt, [sz] + argv, {}),
                                        ("GIT_DIR", unrelated, [sz] + argv, {"GIT_DIR": nrg}),
                                        ("git -C worktree", unrelated, [G.REAL_GIT, "-C", nwt, "sizer"] + argv, {"PATH": bindir + ":/usr/bin:/bin"})]:
                if name != "top" and "worktree" in name and p.returncode != 0:
                    continue
                r = R.run_proc(cmd, cwd, R.base_env(env), timeout=60, tmpdir=d)
                out["evals"] += 1
                if r.rc != 0:
                    out["viol"].append(("C13/addressing/run-failed/no-references/" + name, {"rc": r.rc, "stderr": r.err[-300:].decode("utf-8", "replace")}))
                else:
                    outs_n[name] = r.out
            for name, o in outs_n.items():
                if o != outs_n.get("top", o):
                    out["viol"].append(("C13/addressing/report-differs/no-references/" + name, {"first_diff": _first_diff(outs_n["top"], o)}))
        # --- shallow
        if idx % 4 == 0 and len(m.commits) >= 2:
            sh = os.path.join(d, "sh")
            shutil.copytree(work, sh, symlinks=True)
            shgit = os.path.join(sh, ".git")
            with open(os.path.join(shgit, "shallow"), "w") as f:
                f.write(m.commits[-1].oid + "\n")
            targets = [("synthetic-shallow-file", sh)]
            shwt = os.path.join(sh, ".git", "worktrees")
            wts = os.path.join(d, "shwt")
            p = gitc(sh, "worktree", "add", "--detach", "--no-checkout", wts, m.commits[-1].oid, check=False)
            if p.returncode == 0:
                targets.append(("synthetic-shallow-file/linked-worktree", wts))
            cl = os.path.join(d, "clone")
            head = [r for r, o in m.refs.items() if r.startswith("refs/heads/") and o.kind == "commit" and o.parents]
            if head:
                p = gitc(d, "clone", "-q", "--depth", "1", "--no-checkout", "--branch", head[0].split("/", 2)[2], "file://" + work, cl, check=False)
                if p.returncode == 0 and os.path.exists(os.path.join(cl, ".git", "shallow")):
                    targets.append(("depth-1-clone", cl))
            for name, cwd in list(targets):
                targets.append((name + "+git-path-child-fails", cwd))
            # the same shallow repositories addressed in the other ways
            addr = []
            for name, cwd in list(targets)[:3]:
                if not os.path.isdir(os.path.join(cwd, ".git")):
                    continue
                gd = os.path.join(cwd, ".git")
                os.makedirs(os.path.join(cwd, "sub", "dir"), exist_ok=True)
                addr += [(name + "/GIT_DIR-absolute", unrelated, {"GIT_DIR": gd}, None),
                         (name + "/GIT_DIR-relative", unrelated, {"GIT_DIR": os.path.relpath(gd, unrelated)}, None),
                         (name + "/GIT_DIR+GIT_WORK_TREE", unrelated, {"GIT_DIR": gd, "GIT_WORK_TREE": cwd}, None),
                         (name + "/subdir", os.path.join(cwd, "sub", "dir"), {}, None),
                         (name + "/dot-git", gd, {}, None),
                         (name + "/git --git-dir", unrelated, {"PATH": bindir + ":/usr/bin:/bin"}, [G.REAL_GIT, "--git-dir", gd, "sizer"] + argv),
                         (name + "/git -C", unrelated, {"PATH": bindir + ":/usr/bin:/bin"}, [G.REAL_GIT, "-C", cwd, "sizer"] + argv),
                         (name + "/GIT_DIR+tree-root", unrelated, {"GIT_DIR": gd}, [sz] + argv + [m.commits[-1].oid + "^{tree}"])]
            for name, cwd, env_, cmd_ in addr:
                r = R.run_proc(cmd_ or [sz] + argv, cwd, R.base_env(env_), timeout=60, tmpdir=d)
                out["evals"] += 1
                out["shallow"] += 1
                if r.rc == 0 or report_shaped(r.out):
                    out["viol"].append(("C13/shallow-not-refused/" + name, {"rc": r.rc, "out": r.out[:200].decode("utf-8", "replace")}))
                elif b"goroutine " in r.err and b"panic" in r.err:
                    out["viol"].append(("C13/shallow-not-refused/panic-instead-of-refusal/" + name, {"rc": r.rc, "stderr": r.err[:300].decode("utf-8", "replace")}))
                elif not r.err.strip():
                    out["viol"].append(("C13/shallow-refused-without-message/" + name, {"rc": r.rc}))
            # the child that answers where the `shallow` file is takes its time (cold cache, network file system): the answer
            # must still be waited for
            for name, cwd in list(targets)[:3]:
                for extra in ([], [m.commits[-1].oid + "^{tree}"]):
                    plan = R.make_plan(os.path.join(d, "slowplan-%d" % out["shallow"]),
                                       [{"sig": "rev-parse --git-path", "ord": -1, "mode": "delay", "pre_ms": rng.choice([700, 1200]),
                                         "exit_ms": rng.choice([0, 300]), "max_ms": 1600}])
                    r = R.sizer(sz, cwd, argv + extra, shimdir=shimdir, plan=plan, tmpdir=d)
                    out["evals"] += 1
                    out["shallow"] += 1
                    nm = name + "+slow-git-path-child" + ("+tree-root" if extra else "")
                    if r.rc == 0 or report_shaped(r.out):
                        out["viol"].append(("C13/shallow-not-refused/" + nm, {"rc": r.rc, "out": r.out[:200].decode("utf-8", "replace")}))
                    elif b"goroutine " in r.err and b"panic" in r.err:
                        out["viol"].append(("C13/shallow-not-refused/panic-instead-of-refusal/" + nm, {"rc": r.rc, "stderr": r.err[:300].decode("utf-8", "replace")}))
            for name, cwd in targets:
                plan = None
                if name.endswith("+git-path-child-fails"):
                    plan = R.make_plan(os.path.join(d, "shplan-%d" % out["shallow"]),
                                       [{"sig": "rev-parse --git-path", "ord": 0, "mode": "fault", "before_exec": rng.random() < 0.5,
                                         "after_bytes": rng.choice([0, 3, 1 << 30]), "term": rng.choice(["exit:128", "sig:KILL", "exit:2"])}])
                r = R.sizer(sz, cwd, argv, shimdir=shimdir, plan=plan, tmpdir=d)
                out["evals"] += 1
                out["shallow"] += 1
                if r.rc == 0 or report_shaped(r.out):
                    out["viol"].append(("C13/shallow-not-refused/" + name, {"rc": r.rc, "out": r.out[:200]}))
                elif not r.err.strip():
                    out["viol"].append(("C13/shallow-refused-without-message/" + name, {"rc": r.rc}))
    finally:
        shutil.rmtree(d, ignore_errors=True)
    return out


def ref_out_for_lf(outs, fallback):
    """The report of the same repository at its ordinary path (mode 'top'), if that run succeeded."""
    return outs.get("top", fallback)


def _first_diff(a, b):
    la, lb = a.split(b"\n"), b.split(b"\n")
    for x, y in zip(la, lb):
        if x != y:
            return [x[:150], y[:150]]
    return ["<length>", "%d vs %d" % (len(a), len(b))]


def run(chk, b, tier):
    n = 32 if tier == "quick" else 2000
    sz = b.sizer()
    scratch = b.scratchdir()
    shimdir = b.shimdir()
    res = R.pmap(one_case, [(R.SEED, i, sz, scratch, shimdir) for i in range(n)], chk=chk)
    modes = {}
    for i, r in enumerate(res):
        chk.count(r["evals"])
        for sig, det in r["viol"]:
            chk.violation(sig, det)
        for m in r["inconc"]:
            chk.bump("worktree_add_failed")
        for m in r["modes"]:
            modes[m] = modes.get(m, 0) + 1
        if len(r["modes"]) >= 10:
            chk.nontrivial(("repo", i))
        if r["replace_nontrivial"]:
            chk.bump("repositories_where_git_sees_a_different_graph_through_replace_refs")
        if r["graft_nontrivial"]:
            chk.bump("repositories_where_git_sees_a_different_graph_through_grafts")
        chk.bump("shallow_cases", r["shallow"])
        chk.bump("roots_navigating_through_replaced_or_grafted_commits", r.get("root_through", 0))
        if r["sample"]:
            chk.sample(r["sample"], limit=4)
    chk.cov["runs_per_addressing_mode"] = modes
    if not chk.cov.get("repositories_where_git_sees_a_different_graph_through_replace_refs") or \
            not chk.cov.get("repositories_where_git_sees_a_different_graph_through_grafts"):
        chk.inconc("no non-trivial replace/graft case was generated")
    if not chk.cov.get("shallow_cases"):
        chk.inconc("no shallow case")
    chk.cov["rule"] = ("generated repositories addressed 11 ways (top of work tree, nested subdirectory, .git itself, bare copy, "
                       "GIT_DIR absolute / relative from an unrelated cwd, `git -C <dir> sizer` with the binary on PATH (also "
                       "into a subdirectory), symlinked path, linked worktree and a subdirectory of it): stdout byte-identical; "
                       "refs/replace/* (commits with other tree / more parents, trees, bigger blobs) and info/grafts (add / drop / "
                       "redirect parents) present: numbers equal the reference model of the STORED graph (replace refs count as "
                       "ordinary references), with git's own replaced/grafted listing required to differ (control); shallow "
                       "file / --depth clone / shallow + linked worktree must be refused. Non-trivial: repository observed in "
                       ">=8 addressing modes.")
    chk.assumptions += ["git worktree add / clone run before the observations; they do not change objects or refs/"]
