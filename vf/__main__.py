import argparse
import importlib
import os
import sys

from . import core


def main():
    ap = argparse.ArgumentParser()
    ap.add_argument("prop")
    ap.add_argument("--tier", default=os.environ.get("VERIF_TIER", "quick"), choices=["quick", "thorough"])
    ap.add_argument("--replay", default=None)
    a = ap.parse_args()
    pid = a.prop.upper()
    try:
        mod = importlib.import_module("vf.props." + pid)
    except ImportError as e:
        print("no check for %s: %s" % (pid, e))
        return 3
    if a.replay:
        # Case lists are determined by (seed, tier): a replay re-runs the check with the seed and tier recorded in the
        # replay file and reports whether the recorded violation signature shows up again.
        import json
        rp = json.load(open(a.replay))
        R_ = importlib.import_module("vf.run")
        R_.SEED = int(rp.get("seed", R_.SEED))
        tier = rp.get("tier", a.tier)
        want = rp.get("signature")
        chk = core.Check(pid, tier, getattr(mod, "LEVEL", "exploration"))
        b = R_.Build()
        try:
            mod.run(chk, b, tier)
        finally:
            b.cleanup()
        again = want in chk.violations
        print("REPLAY property=%s signature=%r seed=%s tier=%s: %s" % (pid, want, R_.SEED, tier,
              "violation reproduced" if again else "not reproduced (other violations: %d)" % len(chk.violations)))
        if again:
            print("VIOLATION property=%s replay=%s" % (pid, a.replay))
            print("  detail: %s" % json.dumps(chk.violations[want], default=core._default)[:1500])
        return 1 if again else 0
    level = getattr(mod, "LEVEL", "exploration")
    return core.main_wrapper(pid, lambda chk, b: mod.run(chk, b, a.tier), a.tier, level)


sys.exit(main())
