#!/bin/bash
# thorough sweep of all properties at one seed
seed=${1:-1}
for p in C01 C02 C03 C04 C05 C06 C07 C08 C09 C10 C11 C12 C13 C14 C15 C16 C17 C18 C19; do
  s=$(date +%s)
  VERIF_SEED=$seed ./check $p --tier thorough > sweep-$p-$seed.log 2>&1
  echo "$p seed=$seed rc=$? $(( $(date +%s)-s ))s $(tail -1 sweep-$p-$seed.log | cut -c1-150)"
done
