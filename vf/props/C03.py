"""C03 History depth and tag depth equal the longest chains."""
from ._camp import run_campaign, api_delay_stage, vanishing_object_stage
from .. import oracle as _O

LEVEL = "exploration"


def run(chk, b, tier):
    n = 200 if tier == "quick" else 15000

    def nt(f):
        k = []
        if f["merge_commits"] and f["depth"] >= 2:
            k.append("merge-dag")
        if f["tagdepth"] >= 2:
            k.append("tag-chain>=2")
        return k

    run_campaign(chk, b, ["dag", "dag", "dag", "general"], n, ["depth"], "C03", nt,
                 "commit DAG generator (linear, random, diamond, criss-cross, octopus, several roots; up to 3000 commits) x "
                 "timestamp profiles (increasing, decreasing = children older than parents, equal, random, zero, >2^32), tag "
                 "chains/forests with shuffled reference names; max_history_depth / max_tag_depth vs DP on the model. "
                 "Non-trivial: at least one merge commit and depth>=2, or a tag chain >=2.", permute=0.3, nsel=2)
    api_delay_stage(chk, b, _O.DEPTH_KEYS + (["reference_count"] if "C03" == "C01" else []), "C03", 6 if tier == "quick" else 150)
    vanishing_object_stage(chk, b, "C03", _O.DEPTH_KEYS, tier)
    chk.assumptions += ["reference model and generator trusted; generator self-checked against git"]
