#!/bin/bash
# Offline setup: warms the Go build cache for everything the checks build
# (git-sizer plain + -race, the apidrv driver plain + -race, the git shim).
# Nothing is installed; the checks rebuild from /repo's working tree every time.
set -e
cd "$(dirname "$0")"
export GOFLAGS=-mod=mod GOPROXY=off GOSUMDB=off GOTOOLCHAIN=local
python3 - <<'PY'
import sys
sys.path.insert(0, ".")
from vf import run as R
b = R.Build()
try:
    b.sizer()
    b.shimdir()
    b.apidrv()
    b.sizer(race=True)
    b.apidrv(race=True)
    print("setup: builds ok")
finally:
    b.cleanup()
PY
