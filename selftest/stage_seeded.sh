#!/bin/bash
# usage: selftest/stage_seeded.sh <worktree> <Cnn> <suffix> "<demo cmd>" [checks]
# Copies <worktree>/MUTANT to seeded/<Cnn>-<suffix>, records the demonstration command and runs the full confirmation.
wt=$1; p=$2; suf=$3; demo=$4; checks=${5:-$2}
sd=/verif/seeded/$p-$suf
rm -rf $sd; mkdir -p $sd
cp -r $wt/MUTANT/. $sd/
echo "$demo" > $sd/.democmd
cd /verif && python3 selftest/confirm_seeded.py $sd $p "$demo" --checks $checks > /verif/build/stage-$p-$suf.log 2>&1
python3 - <<P
import json
m=json.load(open("$sd/meta.json"))
print("$p-$suf", "applies", m.get("patch_applies"), "base", m.get("baseline_53_green_with_patch"), "demo", m.get("demo_with_patch_exit"), m.get("demo_without_patch_exit"), "discr", m.get("demo_discriminates"), {k:(v["exit"], v["signatures"][:1]) for k,v in m.get("checks",{}).items()})
P
