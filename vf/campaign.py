"""Repository campaign shared by C01-C04, C08 (and parts of C09/C19):
generate model -> write repo -> run the real binary -> parse -> compare with the
reference model.  Each case returns facet-tagged findings; every property's
check consumes only its own facet."""
import os
import random
import shutil

from . import gen as G
from . import oracle as O
from . import parse_out as P
from . import run as R

FACETS = {
    "census": O.CENSUS_KEYS,
    "maxobj": O.MAXOBJ_KEYS,
    "depth": O.DEPTH_KEYS,
    "checkout": O.CHECKOUT_KEYS,
}


def rng_for(*parts):
    return random.Random("|".join(str(p) for p in parts))


# ---------------------------------------------------------------------------
# ROOT spellings

def first_parent_ancestor(c, n):
    for _ in range(n):
        if not c.parents:
            return None
        c = c.parents[0]
    return c


def peel_to_tree(o):
    while o.kind == "tag":
        o = o.target
    if o.kind == "commit":
        return o.tree
    if o.kind == "tree":
        return o
    return None


def root_spellings(rng, model, k=3):
    """Candidate (spelling, Obj) pairs computed on the model (verified against git later)."""
    out = []
    refs = list(model.refs.items())
    if not refs:
        return out
    allobjs = list(model.all_objects().values())
    for _ in range(k * 3):
        name, o = rng.choice(refs)
        short = name.split("/", 2)[2] if name.count("/") >= 2 and name.startswith(("refs/heads/", "refs/tags/")) else name
        kind = rng.choice(["ref", "short", "oid", "abbrev", "ancestor", "path", "peeltree", "anyoid", "peel", "colon", "colon"])
        if kind == "ref":
            out.append((name, o))
        elif kind == "short":
            out.append((short, o))
        elif kind == "oid":
            out.append((o.oid, o))
        elif kind == "abbrev":
            out.append((o.oid[:rng.choice([8, 10, 12, 20])], o))
        elif kind == "anyoid":
            x = rng.choice(allobjs)
            out.append((x.oid, x))
        elif kind == "ancestor":
            c = o
            while c.kind == "tag":
                c = c.target
            if c.kind == "commit":
                n = rng.randint(0, 3)
                a = first_parent_ancestor(c, n)
                if a is not None:
                    out.append(("%s~%d" % (name, n), a))
        elif kind == "peel":
            c = o
            while c.kind == "tag":
                c = c.target
            out.append(("%s^{%s}" % (name, c.kind), c))
        elif kind == "colon":
            t = peel_to_tree(o)
            if t is not None and o.kind != "tree":
                out.append((rng.choice([name, short, name + "~0"]) + ":", t))
        elif kind == "peeltree":
            t = peel_to_tree(o)
            if t is not None:
                out.append((name + "^{tree}", t))
        elif kind == "path":
            t = peel_to_tree(o)
            if t is None:
                continue
            parts = []
            cur = t
            for _ in range(rng.randint(1, 4)):
                ents = [e for e in cur.entries if e.kind != G.GITLINK]
                if not ents:
                    break
                e = rng.choice(ents)
                parts.append(e.name)
                cur = e.child
                if cur.kind != "tree":
                    break
            if parts:
                try:
                    sp = name + ":" + b"/".join(parts).decode("utf-8")
                except UnicodeDecodeError:
                    continue
                out.append((sp, cur))
    rng.shuffle(out)
    return out[:k]


def verify_roots(gitdir, cands):
    """Keep only spellings that git resolves to the object the model predicts."""
    ok = []
    for sp, o in cands:
        if "\n" in sp or "\0" in sp:
            continue
        p = G.rgit(gitdir, "--no-replace-objects", "rev-parse", "--verify", "--end-of-options", sp, check=False)
        if p.returncode == 0 and p.stdout.decode().strip() == o.oid:
            ok.append((sp, o))
    return ok


SELECTIONS = [
    [], [], ["--branches"], ["--tags"], ["--no-tags"], ["--branches", "--tags"], ["--remotes", "--notes", "--stash"],
    ["--include", "refs/heads", "--exclude", "refs/heads/dev"], ["--exclude", "refs/tags"],
    ["--include", "/refs/(heads|remotes)/.*/"], ["--exclude", "/.*/"], ["--include", "refs/nonexistent"],
    ["--no-branches", "--include", "refs/heads/main"], ["--include=@tags", "--include=@branches"],
]


SEL_FLAGS = ["--branches", "--no-branches", "--tags", "--no-tags", "--remotes", "--no-remotes", "--notes", "--stash"]
SEL_PATTERNS = ["refs/heads", "refs/heads/dev", "refs/heads/main", "refs/tags", "refs/remotes/origin", "refs", "refs/pull", "refs/foo",
                "/refs/(heads|remotes)/.*/", "/.*main/", "/refs/tags/v.*/", "/.*/", "/refs/heads/(d|dev|main)/", "@tags", "@branches", "@remotes",
                "//", "refs/none/such"]


def random_selection(rng):
    """A sequence of 1-5 selection options over a small per-case alphabet, so that the same option and the same pattern come
    back after opposite ones (order and repetition matter: the last matching option decides)."""
    alpha = rng.sample(SEL_PATTERNS, 3) + rng.sample(SEL_FLAGS, 2)
    out = []
    for _ in range(rng.randint(1, 5)):
        a = rng.choice(alpha)
        if a.startswith("--"):
            out.append(a)
        else:
            opt = rng.choice(["--include", "--exclude"])
            if rng.random() < 0.3:
                out.append(opt + "=" + a)
            else:
                out += [opt, a]
    return out


# ---------------------------------------------------------------------------

def add_refgroup_config(rng, model):
    """Give the model a generated refgroup forest in its gitconfig (generator shared with C07); returns the entries."""
    from .props.C07 import gen_forest, render_config
    refs = sorted(model.refs)
    if len(refs) < 2:
        return []
    entries = gen_forest(rng, refs, deep=rng.random() < 0.2)
    model.config = (model.config or "") + render_config(entries)
    return entries


def resolve_desc(gitdir, desc):
    """git is the judge: what does the description resolve to?  desc: bytes."""
    if b"\0" in desc:
        return None
    try:
        p = __import__("subprocess").run(
            [G.REAL_GIT, "--git-dir", gitdir, "--no-replace-objects", "rev-parse", "--verify", "--end-of-options", desc],
            stdout=-1, stderr=-1, env=G.git_env())
    except ValueError:
        return None
    if p.returncode != 0:
        return None
    return p.stdout.decode().strip()


def classify_unresolvable(ex, model_roots, refroots, oid, desc, kind):
    """Minimal discriminating facts for a description that does not resolve (for signatures)."""
    d = desc
    if d.startswith(b"???"):
        return "prefix=???"
    if b"\n" in d:
        return "lf-in-name"
    return "other"


def judge_witnesses(ex, gitdir, wit, facet_out, mode, note=""):
    """wit: dict witness_key -> (oid, desc bytes or None). mode: full|hash|none."""
    for wkey, (vkey, kind) in O.WITNESS.items():
        w = wit.get(wkey)
        if mode == "none":
            if w is not None:
                facet_out.append(("names-none-cites", wkey, {"cited": w}))
            continue
        if w is None:
            # no citation: legitimate when there is no object of that kind or the value is 0 for trees
            continue
        oid, desc = w
        o = ex.reach.get(oid)
        if o is None:
            facet_out.append(("witness-not-reachable", wkey, {"oid": oid, "desc": desc}))
            continue
        if o.kind != kind:
            facet_out.append(("witness-wrong-kind", wkey, {"oid": oid, "kind": o.kind, "want": kind}))
            continue
        if oid not in ex.wit[vkey]:
            facet_out.append(("witness-does-not-attain", wkey, {"oid": oid, "value": ex.true[vkey]}))
            continue
        if mode == "hash":
            if desc is not None:
                facet_out.append(("names-hash-shows-description", wkey, {"desc": desc}))
            continue
        if desc is not None:
            got = resolve_desc(gitdir, desc)
            if got != oid:
                facet_out.append(("desc-unresolvable", wkey, {"oid": oid, "desc": desc, "resolved_to": got}))


def table_witnesses(tab):
    """From a parsed -v table: witness_key -> (oid, desc bytes|None) via citations + footnotes."""
    foots = dict(tab.footnotes)
    fixed, _ = P.table_metrics(tab)
    out = {}
    for sym, wkey in P.V2_WITNESS.items():
        r = fixed.get(sym)
        if r is None or r.citation is None:
            continue
        text = foots.get(r.citation)
        if text is None:
            out[wkey] = ("?", b"<missing footnote>")
            continue
        oid = text[:40].decode("ascii", "replace")
        desc = None
        if len(text) > 40:
            if text[40:42] == b" (" and text.endswith(b")"):
                desc = text[42:-1]
            else:
                desc = text[40:]
        out[wkey] = (oid, desc)
    return out


def run_case(spec):
    """spec: dict(seed, idx, profile, sizer, scratch, shimdir, want_table, names_modes, permute)
    Returns dict(findings: {facet: [...]}, stats...)."""
    seed, idx = spec["seed"], spec["idx"]
    rng = rng_for("campaign", seed, idx, spec.get("profile", ""))
    prof = spec.get("profile", "general")
    d = os.path.join(spec["scratch"], "c%d" % idx)
    shutil.rmtree(d, ignore_errors=True)
    os.makedirs(d)
    res = {"idx": idx, "findings": {}, "runs": 0, "nontrivial": [], "samples": [], "discarded": 0, "inconclusive": []}
    try:
        model = build_model(rng, prof)
        forest_entries = add_refgroup_config(rng, model) if rng.random() < 0.3 else []
        gitdir = G.write_model(model, os.path.join(d, "repo"), skip_empty_tree=rng.random() < 0.5,
                               packed_refs=rng.random() < 0.3 or getattr(model, "force_packed", False))
        if rng.random() < 0.05:
            # the layout of a partial clone whose filter omitted nothing (promisor pack + promisor remote)
            res["promisor_layout"] = G.make_promisor(gitdir)
        allobjs = model.all_objects()
        msg = G.selfcheck(gitdir, {k: v for k, v in allobjs.items() if not (k == G.EMPTY_TREE)})
        if msg:
            res["inconclusive"].append("generator self-check: " + msg)
            return res
        # what git reports as refgroup configuration (ground truth for the selection model)
        from . import select as S
        pcfg = G.rgit(gitdir, "config", "--list", "-z", check=False)
        cfg_entries = [(k.decode("utf-8", "replace"), v.decode("utf-8", "replace")) for k, v in S.parse_config_z(pcfg.stdout)
                       if k.startswith(b"refgroup.") and v is not None]
        forest = S.Forest(cfg_entries)
        if forest.undefined():
            res["discarded"] += 1
            return res
        spec = dict(spec, _forest=forest)
        argvs = []
        nsel = spec.get("nsel", 3)
        sels = [[]] + [rng.choice(SELECTIONS) if rng.random() < 0.5 else random_selection(rng) for _ in range(nsel - 1)]
        gsyms = [g for g in forest.groups if g and "\n" not in g and not g.startswith("-")]
        if forest_entries and gsyms:
            sels[-1] = [rng.choice(["--include", "--exclude"]), "@" + rng.choice(gsyms)]
            if rng.random() < 0.5:
                sels[-1] += [rng.choice(["--include", "--exclude"]), "@" + rng.choice(gsyms)]
        cands = verify_roots(gitdir, root_spellings(rng, model, k=4))
        for i, sel in enumerate(sels):
            roots = []
            if cands and (i % 2 == 1 or rng.random() < 0.3):
                roots = rng.sample(cands, rng.randint(1, min(3, len(cands))))
                if rng.random() < 0.2:
                    roots = roots + [roots[0]]
            argvs.append((list(sel), roots))
        if cands and rng.random() < 0.5:
            argvs.append(([], rng.sample(cands, 1)))
        for sel, roots in argvs:
            one_run(spec, rng, res, model, gitdir, d, sel, roots)
        if spec.get("tail_sweep") and idx % spec["tail_sweep"] == 2 and spec.get("shimdir"):
            # the second pass's stream ending inside its LAST record while the child reports success (a short read that can
            # be noticed): every such run must fail or be right in everything it reports
            sel, roots = argvs[0]
            pdir = os.path.join(d, "tailrec")
            rr = R.sizer(spec["sizer"], gitdir, ["--json", "--no-progress"] + sel + [sp for sp, _ in roots], shimdir=spec["shimdir"],
                         plan=R.make_plan(pdir, [], record=True, record_stdin=True), tmpdir=d)
            sent = os.path.join(pdir, "stdin.cat-file_--batch.0")
            evs = [e for e in R.read_events(pdir) if e["sig"] == "cat-file --batch"]
            if rr.rc == 0 and os.path.exists(sent) and evs:
                lines = open(sent).read().split()
                last = allobjs.get(lines[-1]) if lines else None
                if last is not None:
                    body = last.size + 1
                    total = evs[0]["real_bytes"]
                    ks = sorted(set(range(1, min(body, 24) + 1)) | set([body - 1, body, body // 2] + [rng.randint(1, body) for _ in range(16)]))
                    for k in [x for x in ks if 1 <= x <= body]:
                        one_run(dict(spec, _force_fault={"sig": "cat-file --batch", "ord": 0, "mode": "fault", "term": "exit:0",
                                                        "after_bytes": total - k}, permute=0),
                                rng, res, model, gitdir, d, sel, roots)
                    res["tail_cut_runs"] = res.get("tail_cut_runs", 0) + len(ks)
            shutil.rmtree(pdir, ignore_errors=True)
        if idx % 40 == 3 and spec.get("shimdir"):
            # every git child of one plain run failing at its start, inside and at the end of its output: exit 0 must mean
            # the fault-free report
            sweep = {"viol": []}
            sel, roots = argvs[-1]
            nd = R.fault_sweep(R.Collector(sweep), "X", spec["sizer"], gitdir,
                               ["--json", "--no-progress"] + sel + [sp for sp, _ in roots], spec["shimdir"], d)
            res["runs"] += sweep.get("evals", 0)
            res["faulted_runs"] = res.get("faulted_runs", 0) + nd
            for sig, det in sweep["viol"]:
                res["findings"].setdefault("fail", []).append(("exit-0-but-report-differs-from-fault-free-run", sig.rsplit("/", 1)[-1], det))
    finally:
        if not spec.get("keep"):
            shutil.rmtree(d, ignore_errors=True)
    return res


def build_model(rng, prof):
    if prof == "general":
        return G.random_model(rng, size=rng.choice(["tiny", "small", "small", "medium"]),
                              hostile_names=rng.random() < 0.3)
    if prof == "hostile-names":
        return G.random_model(rng, size="small", hostile_names=True)
    if prof == "dag":
        return dag_model(rng)
    if prof == "trees":
        return tree_model(rng)
    if prof == "roots":
        return roots_model(rng)
    if prof == "scale":
        return scale_model(rng)
    raise ValueError(prof)


def scale_model(rng):
    """Tens of thousands of commits, thousands of references and tags: sizes at which implementations switch code paths
    (batching, background work, buffer growth) that small repositories never reach."""
    pool = G.Pool(rng)
    m = G.Model()
    trees = [pool.new_tree(max_depth=2, max_entries=5) for _ in range(rng.choice([40, 300]))]
    pool.tree = lambda **kw: rng.choice(trees)
    n = rng.choice([21000, 26000, 34000, 52000, 70000])
    shape = rng.choice(["linear", "random", "diamond", "multiroot", "crisscross"])
    commits = G.gen_dag(rng, pool, n, shape=shape, ts=rng.choice(G.TS_PROFILES), hostile=False)
    m.commits = commits
    # the maxima sit in old / middle commits that few names reach
    special = G.Commit(G.Tree([G.Entry(G.FILE, b"big.bin", pool.new_blob(60000)),
                               G.Entry(G.TREE, b"wide", G.Tree([G.Entry(G.FILE, b"w%03d" % k, pool.new_blob(1)) for k in range(150)]))]),
                       [commits[0]], cts=5, msg=b"special " * 500 + b"\n")
    m.refs["refs/heads/special"] = special
    nheads = rng.choice([3, 2500, 2500, 7000])
    for i in range(nheads):
        m.refs["refs/heads/b/%05d" % i] = commits[rng.randrange(n)] if i else commits[-1]
    m.refs["refs/heads/main"] = commits[-1]
    tags = []
    for i in range(rng.choice([2, 300, 1500])):
        t = G.Tag(commits[rng.randrange(n)] if rng.random() < 0.9 or not tags else rng.choice(tags), name=b"t%d" % i, ts=1 + i)
        tags.append(t)
        m.refs["refs/tags/t/%05d" % i] = t
    for i in range(rng.choice([0, 200])):
        m.refs["refs/remotes/origin/r%04d" % i] = commits[rng.randrange(n)]
    m.tags = tags
    m.pool = pool
    m.force_packed = True
    m.meta = {"shape": shape, "n": n, "refs": len(m.refs)}
    return m


def dag_model(rng):
    """Emphasis on commit DAG shapes x timestamp profiles, tag chains/forests."""
    pool = G.Pool(rng)
    m = G.Model()
    n = rng.choice([2, 3, 5, 8, 13, 30, 80, rng.randint(2, 200)])
    if rng.random() < 0.03:
        n = rng.choice([1000, 3000])
    shape = rng.choice(["linear", "random", "diamond", "octopus", "multiroot", "crisscross"])
    if rng.random() < 0.12:
        # wide octopus merges ("30 stars" = 300 parents is crossed)
        shape = "octopus"
        n = rng.choice([40, 66, 72, 130, 305, 330])
    tsp = rng.choice(G.TS_PROFILES)
    # few distinct trees to keep it cheap
    trees = [pool.new_tree(max_depth=1, max_entries=3) for _ in range(3)]
    pool.trees = trees
    commits = G.gen_dag(rng, pool, n, shape=shape, ts=tsp, hostile=rng.random() < 0.3)
    if rng.random() < 0.2 and len(commits) >= 2:
        # a commit that lists the same parent more than once (importers write such commits; git counts every parent line)
        a, b_ = rng.sample(commits, 2)
        k = max(len(c.parents) for c in commits)
        dup = G.Commit(trees[0], [a, b_, a] + [a] * rng.choice([0, 0, k]), cts=rng.randint(1, 2 ** 31 - 1), msg=b"duplicate parents\n")
        commits = commits + [dup]
    m.commits = commits
    heads = rng.sample(commits, min(len(commits), rng.randint(1, 4)))
    if rng.random() < 0.7:
        heads.append(commits[-1])
    for i, h in enumerate(heads):
        m.refs["refs/heads/b%d" % i] = h
    # tag forest
    tags = []
    if rng.random() < 0.8:
        targets = commits + [trees[0], pool.new_blob()]
        names = ["refs/tags/%s" % s for s in ["a", "m", "z", "bag", "tag", "wag", "k1", "k2", "k3", "zz", "aa"]]
        rng.shuffle(names)
        ntag = rng.randint(1, 8)
        for i in range(ntag):
            base = rng.choice(targets + tags) if rng.random() < 0.7 else rng.choice(targets)
            t = G.Tag(base, name=b"t%d" % i, ts=rng.randint(1, 2 ** 31 - 1),
                      msg=rng.choice([b"m\n", None, b"object " + b"1" * 40 + b"\ntype tag\n"]))
            tags.append(t)
        if rng.random() < 0.3:
            t = rng.choice(targets)
            for i in range(rng.randint(5, 40)):
                t = G.Tag(t, name=b"deep%d" % i)
                tags.append(t)
        for nm, t in zip(names, rng.sample(tags, min(len(tags), rng.randint(1, len(names))))):
            m.refs[nm] = t
    m.tags = tags
    m.meta = {"shape": shape, "ts": tsp, "n": n}
    return m


def tree_model(rng):
    """Emphasis on tree DAGs with sharing; maxima of each dimension in different trees."""
    namegen = rng.choice([G.name_plain, G.name_plain, lambda r: G.name_hostile(r, "long") if r.random() < 0.1 else G.name_plain(r),
                          lambda r: G.name_hostile(r)])
    pool = G.Pool(rng, namegen)
    m = G.Model()
    roots = []
    for i in range(rng.randint(1, 5)):
        style = rng.choice(["deep", "wide", "links", "subs", "bytes", "random", "shared", "empty", "huge"])
        if style == "deep":
            t = G.Tree([G.Entry(G.FILE, b"f", pool.new_blob(3))])
            for k in range(rng.randint(3, 60)):
                t = G.Tree([G.Entry(G.TREE, G.name_plain(rng, rng.randint(1, 5)), t)])
        elif style == "wide":
            k = rng.choice([10, 100, 1000, 3000])
            b = pool.new_blob(1)
            t = G.Tree([G.Entry(G.FILE, b"%05d" % j, b) for j in range(k)])
        elif style == "links":
            b = pool.new_blob(4)
            sub = G.Tree([G.Entry(G.LINK, b"l%d" % j, b) for j in range(rng.randint(1, 30))])
            t = G.Tree([G.Entry(G.TREE, b"s%d" % j, sub) for j in range(rng.randint(1, 6))] + [G.Entry(G.LINK, b"top", b)])
        elif style == "subs":
            sub = G.Tree([G.Entry(G.GITLINK, b"m%d" % j, "%040x" % rng.getrandbits(160)) for j in range(rng.randint(1, 40))])
            t = G.Tree([G.Entry(G.TREE, b"s%d" % j, sub) for j in range(rng.randint(1, 6))])
        elif style == "bytes":
            t = G.Tree([G.Entry(G.FILE, b"big%d" % j, pool.new_blob(rng.choice([10000, 50000, 200000]))) for j in range(rng.randint(1, 3))])
        elif style == "huge":
            hb = [G.Blob(b"h%d" % rng.getrandbits(30), declared_size=rng.choice([2 ** 32 - 1, 2 ** 32, 2 ** 32 + 4096, 5 * 2 ** 30, 2 ** 40]))
                  for _ in range(rng.randint(1, 2))]
            inner = G.Tree([G.Entry(G.FILE, b"huge%d" % j, x) for j, x in enumerate(hb)] + [G.Entry(G.FILE, b"small", pool.new_blob(6))])
            t = G.Tree([G.Entry(G.TREE, b"a", inner), G.Entry(G.TREE, b"b", inner)])
        elif style == "shared":
            leaf = pool.new_tree(max_depth=1, max_entries=5)
            mid = G.Tree([G.Entry(G.TREE, b"a", leaf), G.Entry(G.TREE, b"b", leaf), G.Entry(G.TREE, b"c", leaf),
                          G.Entry(G.FILE, b"f", pool.blob())])
            t = G.Tree([G.Entry(G.TREE, b"x", mid), G.Entry(G.TREE, b"y", mid), G.Entry(G.TREE, b"leaf", leaf)])
        elif style == "empty":
            e = G.Tree([])
            t = G.Tree([G.Entry(G.TREE, b"emptydir", e), G.Entry(G.TREE, b"sub", G.Tree([G.Entry(G.TREE, b"e2", e)]))])
        else:
            t = pool.new_tree(max_depth=rng.randint(1, 6), max_entries=rng.randint(1, 10))
        roots.append(t)
    commits = []
    prev = []
    for i, t in enumerate(roots):
        how = rng.choice(["commit", "commit", "commit", "tag", "ref", "none"])
        if how == "commit":
            c = G.Commit(t, prev[-1:] if rng.random() < 0.7 else [], cts=1112911993 + rng.randint(-1000, 1000))
            prev.append(c)
            commits.append(c)
            m.refs["refs/heads/t%d" % i] = c
        elif how == "tag":
            m.refs["refs/tags/tree%d" % i] = G.Tag(t, name=b"tt%d" % i)
        elif how == "ref":
            m.refs["refs/trees/t%d" % i] = t
        else:
            m.noise.append(t)    # reachable only if a ROOT names it
    if not m.refs:
        c = G.Commit(roots[0], [])
        m.refs["refs/heads/main"] = c
        commits.append(c)
    m.commits = commits
    m.tags = []
    if rng.random() < 0.15:
        add_big_runs(rng, m, pool)
    return m


def add_big_runs(rng, m, pool):
    """Runs of consecutive objects of 33-70 KB in the streams of the object readers: a chain of commits with long messages,
    a directory whose subdirectories are all big trees, a chain of tags with long messages; every one of them with a
    distinct size, number of entries, so that a mix-up of two of them shows in the maxima and their witnesses."""
    blobs = [pool.new_blob(k + 1) for k in range(6)]
    subs = []
    for k in range(rng.choice([3, 4, 6])):
        n = 700 + 37 * k
        subs.append(G.Entry(G.TREE, b"big%d" % k, G.Tree([G.Entry(G.FILE, b"some-long-file-name-%05d-%d.txt" % (j, k), blobs[(j + k) % 6])
                                                          for j in range(n)])))
    top = G.Tree(subs + [G.Entry(G.FILE, b"README", pool.new_blob(10))])
    prev = None
    for k in range(rng.choice([3, 5])):
        prev = G.Commit(top if k == 0 else pool.tree(), [prev] if prev else [], cts=1250000000 + k,
                        msg=b"long message %d\n" % k + b"x" * (34000 + 3001 * k) + b"\n")
    m.refs["refs/heads/bigruns"] = prev
    t = prev
    for k in range(rng.choice([0, 3])):
        t = G.Tag(t, name=b"bigtag%d" % k, msg=b"t" * (40000 + 1500 * k) + b"\n")
    if t is not prev:
        m.refs["refs/tags/bigtags"] = t


def roots_model(rng):
    """Emphasis on exotic root kinds for witnesses (C08)."""
    m = G.random_model(rng, size="small", hostile_names=rng.random() < 0.5)
    pool = m.pool
    # a big blob reachable only via a tag -> tree
    r = rng.random()
    big = pool.new_blob(rng.choice([5000, 9000]))
    if r < 0.25:
        t = G.Tree([G.Entry(G.FILE, G.name_hostile(rng, rng.choice(["plain", "spaces", "revsyntax"])), big)])
        m.refs["refs/tags/treetag"] = G.Tag(t, name=b"treetag")
    elif r < 0.5:
        t = G.Tree([G.Entry(G.TREE, b"d", G.Tree([G.Entry(G.FILE, b"bigfile", big)]))])
        m.refs["refs/trees/direct"] = t
    elif r < 0.65:
        m.refs["refs/blobs/direct"] = big
    elif r < 0.8:
        m.refs["refs/tags/blobtag"] = G.Tag(big, name=b"blobtag")
    if rng.random() < 0.25:
        # a wide octopus merge: the commit with the most parents is one no ordinary history contains
        t = pool.tree()
        k = rng.choice([33, 64, 65, 70, 130, 300])
        ps = [G.Commit(t, [], cts=1200000000 + i, msg=b"arm %d\n" % i) for i in range(k)]
        m.refs[rng.choice(["refs/heads/octopus", "refs/tags/octopus", "refs/remotes/origin/octopus"])] = \
            G.Commit(t, ps, cts=1300000000, msg=b"octopus\n")
    if rng.random() < 0.3:
        add_big_runs(rng, m, pool)
    # branch and tag with the same short name
    if m.commits and rng.random() < 0.3:
        m.refs["refs/heads/same"] = m.commits[0]
        m.refs["refs/tags/same"] = m.commits[-1]
    return m


def one_run(spec, rng, res, model, gitdir, d, sel, roots):
    binary = spec["sizer"]
    names = rng.choice(spec.get("names_modes", ["full"]))
    names_via_config = rng.random() < 0.33
    argv = ["--json", "--json-version=1", "--no-progress", "--show-refs"] + ([] if names_via_config else ["--names=" + names]) + \
        sel + [sp for sp, _ in roots]
    # ambient settings that must not matter because every family is fixed by an explicit option: gitconfig sizer.*
    # values (command scope) and a chatty git (GIT_TRACE output on the children's stderr)
    amb = {}
    if rng.random() < 0.35:
        kv = [("sizer.names", rng.choice(["none", "hash", "full"])), ("sizer.jsonVersion", rng.choice(["1", "2"])),
              ("sizer.progress", rng.choice(["true", "false"])), ("sizer.threshold", rng.choice(["0", "30", "2.5"]))]
        kv = rng.sample(kv, rng.randint(1, 4))
        if names_via_config:
            kv = [x for x in kv if x[0] != "sizer.names"]
        amb["GIT_CONFIG_COUNT"] = str(len(kv))
        for i_, (k_, v_) in enumerate(kv):
            amb["GIT_CONFIG_KEY_%d" % i_] = k_
            amb["GIT_CONFIG_VALUE_%d" % i_] = v_
    if names_via_config:
        n_ = int(amb.get("GIT_CONFIG_COUNT", "0"))
        amb["GIT_CONFIG_KEY_%d" % n_] = "sizer.names"
        amb["GIT_CONFIG_VALUE_%d" % n_] = names
        amb["GIT_CONFIG_COUNT"] = str(n_ + 1)
    if rng.random() < 0.15:
        amb["GIT_TRACE"] = "1"
    if rng.random() < 0.4:
        # the processor count decides goroutine schedules and nothing else
        amb["GOMAXPROCS"] = rng.choice(["1", "1", "2", "3", "32"])
    if rng.random() < 0.12 and getattr(model, "commits", None):
        # a graft file named by the caller's environment: grafts must never change what is traversed
        gf = os.path.join(d, "env-grafts-%d" % res["runs"])
        cs = [c for c in model.commits if os.path.exists(os.path.join(gitdir, "objects", c.oid[:2], c.oid[2:]))]
        extra = [o for o in model.all_objects().values() if o.kind == "commit"]
        if cs and extra:
            with open(gf, "w") as f:
                for _ in range(rng.randint(1, 2)):
                    c = rng.choice(cs)
                    f.write(" ".join([c.oid] + [p_.oid for p_ in c.parents] + [rng.choice(extra).oid]) + "\n")
            amb["GIT_GRAFT_FILE"] = gf
    plan = None
    pdir = None
    if len(model.refs) >= 400 and plan is None and spec.get("shimdir") and res["runs"] == 1:
        # children that take seconds to start reading (cold cache, loaded machine) while thousands of names wait to be fed
        pdir = os.path.join(d, "latestart%d" % res["runs"])
        plan = R.make_plan(pdir, [{"sig": sg, "ord": -1, "mode": "delay", "pre_ms": rng.choice([1500, 2600, 4200]), "max_ms": 4500}
                                  for sg in rng.sample(["rev-list", "cat-file --batch-check", "cat-file --batch", "for-each-ref"], rng.randint(1, 2))
                                  + ["rev-list"]][:3])
        res["late_start_runs"] = res.get("late_start_runs", 0) + 1
    if spec.get("permute") and rng.random() < spec["permute"]:
        pdir = os.path.join(d, "plan%d" % res["runs"])
        plan = R.make_plan(pdir, [{"sig": "rev-list", "ord": -1, "mode": "permute", "seed": rng.getrandbits(31)}])
    faulted = False
    if plan is None and spec.get("_force_fault"):
        pdir = os.path.join(d, "ffplan%d" % res["runs"])
        plan = R.make_plan(pdir, [spec["_force_fault"]])
        faulted = True
    if plan is None and spec.get("shimdir") and rng.random() < 0.06:
        # a git child that dies somewhere: the run may fail (C10 judges how), but if it reports success the report
        # must still be the right one
        pdir = os.path.join(d, "fplan%d" % res["runs"])
        sig = rng.choice(["for-each-ref", "rev-list", "cat-file --batch-check", "cat-file --batch", "rev-parse --verify",
                          "config --list", "rev-parse --git-path"])
        after = rng.choice([0, 41, 82, 150, 400, 1 << 40])
        if sig == "cat-file --batch" and rng.random() < 0.6:
            # cut somewhere in the tail of the batch output (the tag objects come last)
            allo = O.reachable(list(model.refs.values()) + [o for _, o in roots])
            total = sum(len("%s %s %d\n" % (o.oid, o.kind, o.size)) + o.size + 1 for o in allo.values() if o.kind != "blob")
            after = max(0, total - rng.randint(1, 400))
        term = rng.choice(["exit:128", "exit:2", "sig:KILL"])
        if sig == "cat-file --batch" and after not in (0, 41, 82, 150, 400, 1 << 40) and rng.random() < 0.5:
            # the stream ends inside its last record (every record is longer than 40 bytes) although the child reports
            # success: the short read is detectable, so a run that succeeds must not have used the incomplete object
            after = max(0, total - rng.randint(1, 40))
            term = "exit:0"
        plan = R.make_plan(pdir, [{"sig": sig, "ord": 0, "mode": "fault", "term": term, "after_bytes": after}])
        faulted = True
    if plan is None and spec.get("shimdir") and rng.random() < 0.08:
        # children that deliver their output in pieces with long pauses in between (a stalled pipe, a loaded machine)
        pdir = os.path.join(d, "stall%d" % res["runs"])
        rules = []
        for sg in ("for-each-ref", "rev-list", "cat-file --batch-check", "cat-file --batch"):
            if rng.random() < 0.6:
                rules.append({"sig": sg, "ord": -1, "mode": "delay", "chunk": rng.choice([30, 75, 150, 400, 2000]),
                              "chunk_ms": rng.choice([120, 180, 250]), "max_ms": rng.choice([300, 600, 900])})
        plan = R.make_plan(pdir, rules)
        res["stalled_runs"] = res.get("stalled_runs", 0) + 1
    if plan is None and spec.get("shimdir") and rng.random() < 0.12:
        # children that hold their whole output back and deliver it in one piece at the end
        pdir = os.path.join(d, "burst%d" % res["runs"])
        sigs = rng.sample(["cat-file --batch", "cat-file --batch", "cat-file --batch-check", "rev-list", "for-each-ref"], rng.randint(1, 3))
        plan = R.make_plan(pdir, [{"sig": sg, "ord": -1, "mode": "burst"} for sg in set(sigs)])
        amb["GOMAXPROCS"] = rng.choice(["1", "1", "2", "16"])
        res["burst_runs"] = res.get("burst_runs", 0) + 1
    cut_refs = False
    if plan is None and spec.get("shimdir") and names == "full" and rng.random() < spec.get("cut_refs", 0.0):
        pdir = os.path.join(d, "cplan%d" % res["runs"])
        nrefs = len(model.refs)
        total = sum(41 + len(o.kind) + 1 + len(str(o.size)) + 1 + len(n) + 1 for n, o in model.refs.items())
        plan = R.make_plan(pdir, [{"sig": "for-each-ref", "ord": 0, "mode": "fault", "term": "exit:0",
                                   "after_bytes": max(1, total - rng.randint(1, 12))}])
        cut_refs = True
    slow = None
    if len(model.refs) >= 400 and plan is None:
        # the reference listing (--show-refs) goes to a reader that is not looking yet, then reads slowly: whoever prints
        # it is held up for seconds while the children have long finished
        slow = (65536, 1, 6500) if res["runs"] == 0 else rng.choice([None, (4096, 1, 300), (512, 0.2)])
        if slow:
            res["slow_stderr_runs"] = res.get("slow_stderr_runs", 0) + 1
    r = R.sizer(binary, gitdir, argv, env=amb, shimdir=spec.get("shimdir"), plan=plan, tmpdir=d, slow_stderr=slow,
                timeout=120 if slow else 60)
    res["runs"] += 1
    F = res["findings"]
    if faulted or cut_refs:
        res["faulted_runs"] = res.get("faulted_runs", 0) + 1
        if r.rc != 0 and not r.timed_out:
            return

    def add(facet, item):
        F.setdefault(facet, []).append(item)

    ctx = {"argv": argv, "ambient": amb, "fault_injected": faulted, "repo_seed": [spec["seed"], spec["idx"], spec.get("profile")], "permuted": plan is not None,
           "tree_roots": [sp for sp, o in roots if o.kind == "tree"] + [n for n, o in model.refs.items() if o.kind == "tree"]}
    if r.timed_out:
        if R.deadlock_witness(r):
            add("hang", ("deadlock-witness", "", dict(ctx, stderr=r.err[-3000:])))
        else:
            res["inconclusive"].append("watchdog fired without a deadlock witness")
        return
    if r.rc != 0:
        # valid repository, valid options -> a failure is a violation of whichever property the report is for
        kind = "panic" if b"goroutine " in r.err and b"panic" in r.err else "error-exit"
        add("fail", (kind, "", dict(ctx, rc=r.rc, stderr=r.err[-1500:])))
        return
    js, probs = P.parse_json(r.out)
    if js is None:
        add("fail", ("bad-json", "", dict(ctx, problems=probs, out=r.out[:500])))
        return
    if cut_refs:
        # only the model-independent clause is judged here: a printed description resolves to the cited object
        res["cut_ref_runs"] = res.get("cut_ref_runs", 0) + 1
        for wkey in O.WITNESS:
            w = P.v1_witness(js, wkey)
            if w and w[1] is not None and "\ufffd" not in w[1]:
                got = resolve_desc(gitdir, w[1].encode("utf-8"))
                if got != w[0]:
                    add("witness", ("desc-unresolvable", wkey, dict(ctx, oid=w[0], desc=w[1], resolved_to=got,
                                                                    note="for-each-ref output ended inside its last line")))
        return
    frames, refmarks, rest = P.parse_stderr(r.err)
    marked = {}
    for plus, name in refmarks:
        marked[name.decode("utf-8", "replace")] = plus
    if set(marked) != set(model.refs):
        add("fail", ("show-refs-set", "", dict(ctx, got=sorted(marked), want=sorted(model.refs))))
        return
    # which references the options select according to the selection model; a disagreement with the program's own '+'
    # marks is reported (facet "selection") and the census is judged against the MODEL's selection
    from . import select as S
    forest = spec.get("_forest") or S.Forest([])
    try:
        rules = []
        i_ = 0
        while i_ < len(sel):
            tok = sel[i_]
            if tok in ("--include", "--exclude") and i_ + 1 < len(sel):
                rules.append(S.parse_opt([tok, sel[i_ + 1]]))
                i_ += 2
            elif tok.startswith(("--include=", "--exclude=")):
                rules.append(S.parse_opt(tok.split("=", 1)))
                i_ += 1
            else:
                rules.append(S.parse_opt([tok]))
                i_ += 1
        want_marks = {n: S.selected(rules, len(roots), n, forest) for n in model.refs}
    except Exception:
        want_marks = dict(marked)
    if want_marks != marked:
        diff = sorted(n for n in marked if marked[n] != want_marks[n])
        add("selection", ("marks-differ-from-selection-model", "", dict(ctx, refs=diff[:5], want=[want_marks[n] for n in diff[:5]])))
    rootobjs = [model.refs[n] for n, plus in want_marks.items() if plus] + [o for _, o in roots]
    ex = O.compute(rootobjs)
    for facet, keys in FACETS.items():
        for k, want, got in O.compare_numeric(ex, js, keys):
            add(facet, ("value", k, dict(ctx, want=want, got=got)))
            if spec.get("_force_fault"):
                # a short read that can be noticed was answered with success AND a wrong number: every property's business
                add("fail", ("exit-0-with-wrong-values-after-a-short-read", k, dict(ctx, want=want, got=got, rule=spec["_force_fault"])))
    # witnesses from JSON v1 (only valid-UTF-8 descriptions are judged from JSON)
    wit = {}
    for wkey in O.WITNESS:
        w = P.v1_witness(js, wkey)
        if w is not None:
            oid, desc = w
            wit[wkey] = (oid, desc.encode("utf-8") if desc is not None else None)
    wf = []
    ntw = 0
    # JSON cannot carry non-UTF-8 bytes: skip description resolution for replaced names
    wit_j = {k: (o, (dsc if dsc is None or "�".encode() not in dsc else None)) for k, (o, dsc) in wit.items()}
    judge_witnesses(ex, gitdir, wit_j, wf, names)
    if spec.get("want_table") and names != "none":
        argv2 = ["-v", "--no-progress"] + ([] if names_via_config else ["--names=" + names]) + sel + [sp for sp, _ in roots]
        plan2 = None
        if plan is not None:
            plan2 = R.make_plan(pdir + "t", [{"sig": "rev-list", "ord": -1, "mode": "permute", "seed": rng.getrandbits(31)}])
        r2 = R.sizer(binary, gitdir, argv2, env=amb, shimdir=spec.get("shimdir"), plan=plan2, tmpdir=d)
        res["runs"] += 1
        if r2.rc != 0 or r2.timed_out:
            add("fail", ("table-run-failed", "", dict(ctx, argv=argv2, rc=r2.rc, stderr=r2.err[-1500:])))
        else:
            tab = P.parse_table(r2.out)
            if tab.errors:
                add("tableparse", ("table-unparsable", "", dict(ctx, argv=argv2, errors=tab.errors[:3])))
            else:
                tw = table_witnesses(tab)
                ntw = len(tw)
                if len(tw) != len(wit):
                    add("witness", ("table-and-json-cite-different-metrics", "", dict(ctx, table=sorted(tw), json=sorted(wit))))
                judge_witnesses(ex, gitdir, tw, wf, names, note="table")
    for kind, wkey, det in wf:
        add("witness", (kind, wkey, dict(ctx, **det)))
    # non-triviality facts
    nt = {
        "objects": len(ex.reach), "roots": len(rootobjs), "explicit_roots": len(roots),
        "unselected_refs": sum(1 for v in marked.values() if not v),
        "merge_commits": sum(1 for o in ex.reach.values() if o.kind == "commit" and len(o.parents) > 1),
        "tags": ex.true["unique_tag_count"], "depth": ex.true["max_history_depth"],
        "tagdepth": ex.true["max_tag_depth"], "witnesses_cited": len(wit),
        "described": sum(1 for _, dsc in wit.values() if dsc is not None),
        "permuted": plan is not None, "table_witnesses": ntw,
    }
    res["nontrivial"].append(nt)
    if len(res["samples"]) < 1:
        res["samples"].append({"argv": argv, "refs": {k: v.oid[:8] + ":" + v.kind for k, v in list(model.refs.items())[:6]},
                               "reachable_objects": len(ex.reach),
                               "census": {k: js.get(k) for k in O.CENSUS_KEYS[:4]}})
