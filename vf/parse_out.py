"""Parsers for git-sizer's outputs (part of the monitors). All work on bytes."""
import json
import re

HEADER1 = b"| Name                         | Value     | Level of concern               |"
HEADER2 = b"| ---------------------------- | --------- | ------------------------------ |"
NOPROBLEMS = b"No problems above the current threshold were found\n"

CIT_RE = re.compile(rb"\[(\d+)\]$")
FOOT_RE = re.compile(rb"^\[(\d+)\]\s+(.*)$", re.S)
# tail of a row, from the right: " | %5s %-3s | %-30s |"
ROW_TAIL = re.compile(rb"^\| (.*) \| +(\S*) (.{3}) \| (.{30}) \|$", re.S)


class Row:
    __slots__ = ("raw", "indent", "bullet", "name", "citation", "value", "unit", "concern", "is_header", "blank")

    def __repr__(self):
        return "Row(%r,%r,%r,%r,%r)" % (self.name, self.citation, self.value, self.unit, self.concern)


class Table:
    def __init__(self):
        self.no_problems = False
        self.rows = []
        self.footnotes = []   # list of (n:int, text:bytes)
        self.errors = []


def _rune_len(b):
    try:
        return len(b.decode("utf-8"))
    except UnicodeDecodeError:
        return len(b)


def parse_table(out, lenient=False):
    """Parse the table output. Returns Table (errors collected in .errors).
    lenient: names may contain LF (refgroup display names, file names in footnotes): lines of the row region that are
    not row-shaped are collected in .noise, footnote lines that do not start with [n] continue the previous footnote."""
    t = Table()
    t.noise = []
    if out == NOPROBLEMS:
        t.no_problems = True
        return t
    if not out.startswith(HEADER1 + b"\n" + HEADER2 + b"\n"):
        t.errors.append("missing table header")
        return t
    body = out[len(HEADER1) + len(HEADER2) + 2:]
    lines = body.split(b"\n")
    if lenient:
        # the row region ends at the last line that ends like a row
        last = -1
        for i, ln in enumerate(lines):
            if ln.endswith(b" |") and ROW_TAIL.match(ln if ln.startswith(b"| ") else b"| " + ln):
                last = i
        i = last + 1
    else:
        i = 0
        while i < len(lines) and lines[i].startswith(b"| ") and lines[i].endswith(b" |"):
            i += 1
    rowlines = lines[:i]
    rest = lines[i:]
    for ln in rowlines:
        m = ROW_TAIL.match(ln)
        r = Row()
        r.raw = ln
        if not m:
            if lenient:
                t.noise.append(ln)
            else:
                t.errors.append("unparsable row %r" % ln[:120])
            continue
        cell, value, unit, concern = m.group(1), m.group(2), m.group(3), m.group(4)
        r.value, r.unit, r.concern = value, unit.rstrip(b" "), concern.rstrip(b" ")
        r.blank = cell.strip() == b"" and value == b"" and r.unit == b"" and r.concern == b""
        # split cell: indent, bullet, name, spacer, citation
        stripped = cell.rstrip(b" ")
        cm = CIT_RE.search(stripped)
        r.citation = None
        if cm and value != b"":
            r.citation = int(cm.group(1))
            stripped = stripped[:cm.start()].rstrip(b" ")
        lead = len(stripped) - len(stripped.lstrip(b" "))
        r.indent = lead
        s = stripped[lead:]
        r.bullet = s.startswith(b"* ")
        r.name = s[2:] if r.bullet else s
        r.is_header = (value == b"" and not r.blank)
        t.rows.append(r)
    # footnotes
    if rest and rest[-1] == b"":
        rest = rest[:-1]
    if rest:
        if rest[0] != b"":
            t.errors.append("no blank line before footnotes: %r" % rest[0][:80])
        else:
            rest = rest[1:]
        for ln in rest:
            fm = FOOT_RE.match(ln)
            if not fm:
                if lenient and t.footnotes:
                    n, tx = t.footnotes[-1]
                    t.footnotes[-1] = (n, tx + b"\n" + ln)
                else:
                    t.errors.append("unparsable footnote line %r" % ln[:120])
                continue
            t.footnotes.append((int(fm.group(1)), fm.group(2)))
    return t


def footnote_discipline(t):
    """C19 clauses on a parsed table. Returns list of problems."""
    probs = list(t.errors)
    if t.no_problems:
        return probs
    cited = [r.citation for r in t.rows if r.citation is not None]
    # numbering 1..k in order of first citation
    first = []
    for c in cited:
        if c not in first:
            first.append(c)
    if first != list(range(1, len(first) + 1)):
        probs.append("citations not numbered 1..k in order of first citation: %r" % first)
    nums = [n for n, _ in t.footnotes]
    if nums != list(range(1, len(nums) + 1)):
        probs.append("footnotes not numbered 1..k: %r" % nums)
    if set(nums) != set(first):
        probs.append("cited %r vs footnotes %r" % (sorted(set(first)), nums))
    texts = [x for _, x in t.footnotes]
    if len(set(texts)) != len(texts):
        probs.append("identical footnote texts with different numbers")
    return probs


def data_rows(t):
    return [r for r in t.rows if not r.blank and not r.is_header]


# names of rows -> v2 symbols (name is unique within its section path)
TABLE_LAYOUT = [
    # (section path, row name, v2 symbol, v1 key, humaner, unit, scale)
    (("Overall repository size", "Commits"), "Count", "uniqueCommitCount", "unique_commit_count", "metric", "", 500e3),
    (("Overall repository size", "Commits"), "Total size", "uniqueCommitSize", "unique_commit_size", "binary", "B", 250e6),
    (("Overall repository size", "Trees"), "Count", "uniqueTreeCount", "unique_tree_count", "metric", "", 1.5e6),
    (("Overall repository size", "Trees"), "Total size", "uniqueTreeSize", "unique_tree_size", "binary", "B", 2e9),
    (("Overall repository size", "Trees"), "Total tree entries", "uniqueTreeEntries", "unique_tree_entries", "metric", "", 50e6),
    (("Overall repository size", "Blobs"), "Count", "uniqueBlobCount", "unique_blob_count", "metric", "", 1.5e6),
    (("Overall repository size", "Blobs"), "Total size", "uniqueBlobSize", "unique_blob_size", "binary", "B", 10e9),
    (("Overall repository size", "Annotated tags"), "Count", "uniqueTagCount", "unique_tag_count", "metric", "", 25e3),
    (("Overall repository size", "References"), "Count", "referenceCount", "reference_count", "metric", "", 25e3),
    (("Biggest objects", "Commits"), "Maximum size", "maxCommitSize", "max_commit_size", "binary", "B", 50e3),
    (("Biggest objects", "Commits"), "Maximum parents", "maxCommitParentCount", "max_parent_count", "metric", "", 10),
    (("Biggest objects", "Trees"), "Maximum entries", "maxTreeEntries", "max_tree_entries", "metric", "", 1000),
    (("Biggest objects", "Blobs"), "Maximum size", "maxBlobSize", "max_blob_size", "binary", "B", 10e6),
    (("History structure",), "Maximum history depth", "maxHistoryDepth", "max_history_depth", "metric", "", 500e3),
    (("History structure",), "Maximum tag depth", "maxTagDepth", "max_tag_depth", "metric", "", 1.001),
    (("Biggest checkouts",), "Number of directories", "maxCheckoutTreeCount", "max_expanded_tree_count", "metric", "", 2000),
    (("Biggest checkouts",), "Maximum path depth", "maxCheckoutPathDepth", "max_path_depth", "metric", "", 10),
    (("Biggest checkouts",), "Maximum path length", "maxCheckoutPathLength", "max_path_length", "binary", "B", 100),
    (("Biggest checkouts",), "Number of files", "maxCheckoutBlobCount", "max_expanded_blob_count", "metric", "", 50e3),
    (("Biggest checkouts",), "Total size of files", "maxCheckoutBlobSize", "max_expanded_blob_size", "binary", "B", 1e9),
    (("Biggest checkouts",), "Number of symlinks", "maxCheckoutLinkCount", "max_expanded_link_count", "metric", "", 25e3),
    (("Biggest checkouts",), "Number of submodules", "maxCheckoutSubmoduleCount", "max_expanded_submodule_count", "metric", "", 100),
]
V2_TO_V1 = {sym: v1 for _, _, sym, v1, _, _, _ in TABLE_LAYOUT}
V2_WITNESS = {
    "maxCommitSize": "max_commit", "maxCommitParentCount": "max_parent_count_commit",
    "maxTreeEntries": "max_tree_entries_tree", "maxBlobSize": "max_blob_size_blob",
    "maxTagDepth": "max_tag_depth_tag", "maxCheckoutTreeCount": "max_expanded_tree_count_tree",
    "maxCheckoutPathDepth": "max_path_depth_tree", "maxCheckoutPathLength": "max_path_length_tree",
    "maxCheckoutBlobCount": "max_expanded_blob_count_tree", "maxCheckoutBlobSize": "max_expanded_blob_size_tree",
    "maxCheckoutLinkCount": "max_expanded_link_count_tree",
    "maxCheckoutSubmoduleCount": "max_expanded_submodule_count_tree",
}


def rows_with_paths(t):
    """Assign each data row its section path (list of header names), using indentation.
    Returns list of (path_tuple, Row)."""
    out = []
    stack = []   # (level, name)
    for r in t.rows:
        if r.blank:
            continue
        level = (r.indent // 2 + 1) if r.bullet else 0
        if r.is_header:
            while stack and stack[-1][0] >= level:
                stack.pop()
            stack.append((level, r.name))
        else:
            # data rows may be nested below other data rows (refgroups): only headers form the path
            while stack and stack[-1][0] >= level:
                stack.pop()
            out.append((tuple(n.decode("utf-8", "replace") for _, n in stack), r))
    return out


def table_metrics(t):
    """Map v2 symbol -> Row for the fixed metrics; other rows (refgroups) -> list."""
    fixed = {}
    other = []
    idx = {(p, n): sym for p, n, sym, _, _, _, _ in TABLE_LAYOUT}
    for path, r in rows_with_paths(t):
        key = (path, r.name.decode("utf-8", "replace"))
        if key in idx and idx[key] not in fixed:
            fixed[idx[key]] = r
        else:
            other.append((path, r))
    return fixed, other


def parse_json(out):
    """Strict: valid UTF-8, valid JSON, exactly one trailing newline. Returns (obj, problems)."""
    probs = []
    try:
        s = out.decode("utf-8")
    except UnicodeDecodeError as e:
        return None, ["stdout is not valid UTF-8: %s" % e]
    if not s.endswith("\n"):
        probs.append("no trailing newline")
    try:
        def no_dup(pairs):
            d = {}
            for k, v in pairs:
                if k in d:
                    probs.append("duplicate key %r" % k)
                d[k] = v
            return d
        obj = json.loads(s, object_pairs_hook=no_dup)
    except ValueError as e:
        return None, ["invalid JSON: %s" % e]
    return obj, probs


V1_PATH_RE = re.compile(r"^([0-9a-f]{40})(?: \((.*)\))?$", re.S)


def v1_witness(js, key):
    """Return (oid, description or None) for a v1 path member, or None if absent."""
    v = js.get(key)
    if v is None:
        return None
    m = V1_PATH_RE.match(v)
    if not m:
        return ("?", v)
    return (m.group(1), m.group(2))


PROGRESS_RE = re.compile(rb"^(.*?): (\d+)   (.?) {20}$", re.S)


def parse_stderr(err):
    """Split stderr into progress frames, show-refs lines and the rest.
    frames: list of (label, count, spinner, terminator) where terminator is b'\\r' or b'\\n'."""
    frames = []
    refs = []
    rest = []
    # split keeping terminators
    parts = re.split(rb"([\r\n])", err)
    i = 0
    while i < len(parts):
        seg = parts[i]
        term = parts[i + 1] if i + 1 < len(parts) else b""
        i += 2
        if seg == b"" and term == b"":
            continue
        m = PROGRESS_RE.match(seg)
        if m:
            frames.append((m.group(1), int(m.group(2)), m.group(3), term))
        elif seg.startswith(b"+ ") and term == b"\n":
            refs.append((True, seg[2:]))
        elif seg.startswith(b"  ") and term == b"\n" and seg[2:3] != b" ":
            refs.append((False, seg[2:]))
        else:
            if seg or term == b"\n":
                rest.append(seg + term)
    return frames, refs, rest
