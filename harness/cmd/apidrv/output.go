package main

import (
	"encoding/json"
	"reflect"
	"strings"

	"github.com/github/git-sizer/counts"
	"github.com/github/git-sizer/git"
	"github.com/github/git-sizer/sizes"
)

type groupSpec struct {
	Symbol string `json:"symbol"`
	Name   string `json:"name"`
}

type resolverOp struct {
	Op    string `json:"op"` // req | name | tree | commit
	Key   string `json:"key,omitempty"`
	OID   string `json:"oid,omitempty"`
	Type  string `json:"type,omitempty"`
	Name  string `json:"name,omitempty"` // base64 for tree entry names / ref names
	Child string `json:"child,omitempty"`
	Tree  string `json:"tree,omitempty"`
}

func mustOID(s string) git.OID {
	o, err := git.NewOID(s)
	if err != nil {
		panic("bad oid in case: " + s)
	}
	return o
}

func fieldByTag(v reflect.Value, tag string) (reflect.Value, bool) {
	t := v.Type()
	for i := 0; i < t.NumField(); i++ {
		jt := strings.Split(t.Field(i).Tag.Get("json"), ",")[0]
		if jt == tag {
			return v.Field(i), true
		}
	}
	return reflect.Value{}, false
}

// outputCase renders a synthetic HistorySize through the real TableString / JSON code.
func outputCase(id interface{}, c rawCase) map[string]interface{} {
	var fields map[string]uint64
	json.Unmarshal(c["fields"], &fields)
	var groups []groupSpec
	json.Unmarshal(c["groups"], &groups)
	var groupCounts map[string]uint64
	json.Unmarshal(c["group_counts"], &groupCounts)
	var ops []resolverOp
	json.Unmarshal(c["resolver_ops"], &ops)
	var thresholds []string
	json.Unmarshal(c["thresholds"], &thresholds)
	var styles []string
	json.Unmarshal(c["names"], &styles)
	if len(styles) == 0 {
		styles = []string{"full"}
	}

	res := map[string]interface{}{}
	var renders []map[string]interface{}
	for _, style := range styles {
		var ns sizes.NameStyle
		if err := ns.Set(style); err != nil {
			panic("bad name style in case")
		}
		h := sizes.HistorySize{ReferenceGroups: map[sizes.RefGroupSymbol]*counts.Count32{}}
		hv := reflect.ValueOf(&h).Elem()
		for k, v := range fields {
			f, ok := fieldByTag(hv, k)
			if !ok {
				panic("unknown field " + k)
			}
			f.SetUint(v)
		}
		for k, v := range groupCounts {
			n := counts.Count32(v)
			h.ReferenceGroups[sizes.RefGroupSymbol(k)] = &n
		}
		pr := sizes.NewPathResolver(ns)
		for _, op := range ops {
			switch op.Op {
			case "req":
				p := pr.RequestPath(mustOID(op.OID), op.Type)
				f, ok := fieldByTag(hv, op.Key)
				if !ok {
					panic("unknown path field " + op.Key)
				}
				if p != nil {
					f.Set(reflect.ValueOf(p))
				}
			case "name":
				pr.RecordName(string(b64(op.Name)), mustOID(op.OID))
			case "tree":
				pr.RecordTreeEntry(mustOID(op.OID), string(b64(op.Name)), mustOID(op.Child))
			case "commit":
				pr.RecordCommit(mustOID(op.OID), mustOID(op.Tree))
			}
		}
		var rgs []sizes.RefGroup
		for _, g := range groups {
			rgs = append(rgs, sizes.RefGroup{Symbol: sizes.RefGroupSymbol(g.Symbol), Name: g.Name})
		}
		j1, err := json.MarshalIndent(h, "", "    ")
		r := map[string]interface{}{"names": style}
		if err != nil {
			r["json1_err"] = err.Error()
		} else {
			r["json1"] = []byte(j1)
		}
		for _, ts := range thresholds {
			var th sizes.Threshold
			if err := th.Set(ts); err != nil {
				r["threshold_err:"+ts] = err.Error()
				continue
			}
			func() {
				defer func() {
					if rec := recover(); rec != nil {
						r["panic:"+ts] = rec
					}
				}()
				r["table:"+ts] = []byte(h.TableString(rgs, th, ns))
			}()
		}
		var th sizes.Threshold
		j2, err := h.JSON(rgs, th, ns)
		if err != nil {
			r["json2_err"] = err.Error()
		} else {
			r["json2"] = []byte(j2)
		}
		renders = append(renders, r)
	}
	res["renders"] = renders
	return res
}
