package main

import (
	"encoding/json"
	"os"

	"github.com/github/git-sizer/git"
)

// configCase: {"dir": path, "prefixes": ["refgroup", ...], "env": {k: v}}
func configCase(id interface{}, c rawCase) map[string]interface{} {
	var env map[string]string
	json.Unmarshal(c["env"], &env)
	var prefixes []string
	json.Unmarshal(c["prefixes"], &prefixes)
	saved := map[string]*string{}
	for k, v := range env {
		if old, ok := os.LookupEnv(k); ok {
			o := old
			saved[k] = &o
		} else {
			saved[k] = nil
		}
		os.Setenv(k, v)
	}
	defer func() {
		for k, v := range saved {
			if v == nil {
				os.Unsetenv(k)
			} else {
				os.Setenv(k, *v)
			}
		}
	}()
	repo, err := git.NewRepositoryFromPath(getStr(c, "dir"))
	if err != nil {
		return map[string]interface{}{"open_err": err.Error()}
	}
	res := map[string]interface{}{}
	out := map[string]interface{}{}
	for _, p := range prefixes {
		cfg, err := repo.GetConfig(p)
		if err != nil {
			out[p] = map[string]interface{}{"err": err.Error()}
			continue
		}
		var ents [][2][]byte
		for _, e := range cfg.Entries {
			ents = append(ents, [2][]byte{[]byte(e.Key), []byte(e.Value)})
		}
		out[p] = map[string]interface{}{"entries": ents, "prefix": cfg.Prefix}
	}
	res["configs"] = out
	return res
}

// parseCase: {"kind": tree|commit|tag|ref|batch, "data": base64}
func parseCase(id interface{}, c rawCase) map[string]interface{} {
	var data []byte
	json.Unmarshal(c["data"], &data)
	kind := getStr(c, "kind")
	res := map[string]interface{}{}
	oid := mustOID("0123456789012345678901234567890123456789")
	switch kind {
	case "tree":
		t, err := git.ParseTree(oid, data)
		if err != nil {
			res["err"] = err.Error()
			return res
		}
		res["size"] = uint64(t.Size())
		if getInt(c, "scribble") == 1 {
			// the caller recycles its read buffer for the next object before walking this tree
			for i := range data {
				data[i] = 0xAA
			}
		}
		it := t.Iter()
		var ents []interface{}
		n := 0
		for {
			e, ok, err := it.NextEntry()
			if err != nil {
				res["err"] = err.Error()
				break
			}
			if !ok {
				break
			}
			ents = append(ents, []interface{}{uint64(e.Filemode), []byte(e.Name), e.OID.String()})
			n++
			if n > len(data)+1 {
				res["loop"] = true
				break
			}
		}
		res["entries"] = ents
		if _, bad := res["err"]; !bad && getInt(c, "scribble") != 1 {
			// two iterations of the same tree at once (a pairwise comparison of its entries), then one more afterwards
			drain := func(it *git.TreeIter) int {
				k := 0
				for {
					_, ok, err := it.NextEntry()
					if err != nil || !ok || k > len(data)+1 {
						return k
					}
					k++
				}
			}
			itA := t.Iter()
			nA := 0
			if _, ok, err := itA.NextEntry(); err == nil && ok {
				nA = 1
			}
			nB := drain(t.Iter())
			nA += drain(itA)
			res["interleaved"] = []int{nA, nB, drain(t.Iter())}
		}
	case "commit":
		cm, err := git.ParseCommit(oid, data)
		if err != nil {
			res["err"] = err.Error()
			return res
		}
		var ps []string
		for _, p := range cm.Parents {
			ps = append(ps, p.String())
		}
		res["tree"], res["parents"], res["size"] = cm.Tree.String(), ps, uint64(cm.Size)
	case "tag":
		tg, err := git.ParseTag(oid, data)
		if err != nil {
			res["err"] = err.Error()
			return res
		}
		res["referent"], res["type"], res["size"] = tg.Referent.String(), string(tg.ReferentType), uint64(tg.Size)
	case "ref":
		r, err := git.ParseReference(string(data))
		if err != nil {
			res["err"] = err.Error()
			return res
		}
		res["refname"], res["type"], res["size"], res["oid"] = []byte(r.Refname), string(r.ObjectType), uint64(r.ObjectSize), r.OID.String()
	case "batch":
		h, err := git.ParseBatchHeader("", string(data))
		if err != nil {
			res["err"] = err.Error()
			return res
		}
		res["oid"], res["type"], res["size"] = h.OID.String(), string(h.ObjectType), uint64(h.ObjectSize)
	default:
		panic("unknown kind")
	}
	return res
}

type filterStep struct {
	Pol     string `json:"pol"`  // include | exclude
	Kind    string `json:"kind"` // prefix | regexp
	Pattern string `json:"pattern"`
}

// filterCase: {"steps": [...], "names": [...]}  (one step = the bare match relation)
func filterCase(id interface{}, c rawCase) map[string]interface{} {
	var steps []filterStep
	json.Unmarshal(c["steps"], &steps)
	var names []string
	json.Unmarshal(c["names"], &names)
	bare := getInt(c, "bare") == 1
	var f git.ReferenceFilter
	for _, s := range steps {
		var ff git.ReferenceFilter
		if s.Kind == "regexp" {
			var err error
			ff, err = git.RegexpFilter(s.Pattern)
			if err != nil {
				return map[string]interface{}{"err": err.Error()}
			}
		} else {
			ff = git.PrefixFilter(s.Pattern)
		}
		if bare {
			f = ff
			break
		}
		if s.Pol == "include" {
			f = git.Include.Combine(f, ff)
		} else {
			f = git.Exclude.Combine(f, ff)
		}
	}
	m := make([]bool, len(names))
	for i, n := range names {
		m[i] = f.Filter(n)
	}
	return map[string]interface{}{"m": m}
}
