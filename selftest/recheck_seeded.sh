#!/bin/bash
# usage: selftest/recheck_seeded.sh [parallel jobs]   - runs the quick check of its property against every seeded change and
# prints the ones that are NOT reported (exit status other than 1) or whose patch no longer applies.
cd /verif
j=${1:-3}
ls -d seeded/C??-? | xargs -P $j -I{} sh -c 'p=$(basename {} | cut -c1-3); r=$(selftest/run_mutant.sh {}/patch.diff $p 2>&1 | tail -1); echo "{} $r"' | tee build/recheck-seeded.log | grep -v "exit=1$"
echo "rechecked: $(wc -l < build/recheck-seeded.log) seeded changes"
