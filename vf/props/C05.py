"""C05 Counters saturate and never wrap; bombs are analysed in linear time."""
import base64
import json
import os
import random
import resource
import shutil
import subprocess

from .. import gen as G
from .. import oracle as O
from .. import parse_out as P
from .. import run as R

LEVEL = "exploration"
U32, U64 = O.U32, O.U64


def boundary(width):
    cap = 2 ** width - 1
    s = {0, 1, 2, cap, cap - 1, cap - 2, cap // 2, cap // 2 + 1, cap // 2 - 1}
    for k in range(width):
        for d in (-1, 0, 1):
            v = 2 ** k + d
            if 0 <= v <= cap:
                s.add(v)
    return sorted(s)


def bulk(arg):
    binary, seed, n, nc = arg
    p = subprocess.run([binary, "counts-bulk", str(seed), str(n), str(nc)], stdout=subprocess.PIPE, stderr=subprocess.PIPE)
    if p.returncode != 0:
        return {"error": p.stderr.decode(errors="replace")[-400:]}
    return json.loads(p.stdout)


def layer_arith(chk, b, tier):
    drv = b.apidrv()
    # (a) boundary set, judged by python big integers
    cases = []
    for w in (32, 64):
        cap = 2 ** w - 1
        B = boundary(w)
        for a in B:
            for bb in B:
                for op in ("plus", "inc", "adjn", "adjp"):
                    cases.append({"id": len(cases), "w": w, "op": op, "a": a, "b": bb})
            cases.append({"id": len(cases), "w": w, "op": "tou64", "a": a})
    for a in boundary(64):
        cases.append({"id": len(cases), "w": 32, "op": "new32", "a": a})
    rng = random.Random("C05|%d" % R.SEED)
    for _ in range(2000):
        steps = []
        for _ in range(rng.randint(1, 30)):
            op = rng.choice(["inc32", "inc64", "inc64from32", "max32", "max64", "plus32", "plus64"])
            x = rng.choice([rng.getrandbits(64), rng.getrandbits(32), rng.getrandbits(16), U32, U64, U32 - 1, U64 - 1, 1, 0,
                            2 ** 31, 2 ** 63])
            steps.append({"op": op, "x": x})
        cases.append({"id": len(cases), "op": "compose", "steps": steps})
    obs, rc, err = R.drv(drv, "counts-eval", cases)
    if len(obs) != len(cases):
        chk.inconc("counts-eval returned %d of %d" % (len(obs), len(cases)))
    nsat = 0
    for o in obs:
        c = cases[o["id"]]
        chk.count()
        if "panic" in o:
            chk.violation("C05/arith/panic/" + c["op"], {"case": c, "panic": o["panic"]})
            continue
        op = c["op"]
        if op == "compose":
            c32 = c64 = 0
            for s in c["steps"]:
                x = s["x"]
                if s["op"] in ("inc32", "plus32"):
                    c32 = min(c32 + min(x, U32), U32)
                elif s["op"] in ("inc64", "plus64"):
                    c64 = min(c64 + x, U64)
                elif s["op"] == "inc64from32":
                    c64 = min(c64 + c32, U64)
                elif s["op"] == "max32":
                    c32 = max(c32, min(x, U32))
                elif s["op"] == "max64":
                    c64 = max(c64, x)
            if (o["c32"], o["c64"]) != (c32, c64):
                chk.violation("C05/arith/compose", {"steps": c["steps"][:12], "got": [o["c32"], o["c64"]], "want": [c32, c64]})
            if c32 == U32 or c64 == U64:
                nsat += 1
            continue
        cap = 2 ** c["w"] - 1
        a, bb = c["a"], c.get("b", 0)
        if op in ("plus", "inc"):
            want = min(a + bb, cap)
            if want == cap:
                nsat += 1
            if o["v"] != want:
                chk.violation("C05/arith/%s%d" % (op, c["w"]), {"a": a, "b": bb, "got": o["v"], "want": want})
        elif op in ("adjn", "adjp"):
            want = max(a, bb)
            r = o["ret"]
            if o["v"] != want or (r and bb < a) or (not r and bb > a):
                chk.violation("C05/arith/%s%d" % (op, c["w"]), {"a": a, "b": bb, "got": [o["v"], r], "want": want})
        elif op == "tou64":
            if o["v"] != a or o["over"] != (a == cap):
                chk.violation("C05/arith/tou64-%d" % c["w"], {"a": a, "got": [o["v"], o["over"]]})
        elif op == "new32":
            if o["v"] != min(a, U32):
                chk.violation("C05/arith/new32", {"a": a, "got": o["v"], "want": min(a, U32)})
    chk.cov["boundary_cases_judged_by_python"] = len(obs)
    chk.cov["boundary_cases_saturating"] = nsat
    # (b) random pairs and compositions, Go integer reference
    total = 10 ** 6 if tier == "quick" else 10 ** 8
    chunks = 16 if tier == "quick" else 64
    res = R.pmap(bulk, [(drv, R.SEED * 1000 + i, total // chunks, total // chunks // 20) for i in range(chunks)], chk=chk)
    for r in res:
        if "error" in r:
            chk.inconc("counts-bulk: " + r["error"])
            continue
        chk.count(r["evaluations"])
        chk.bump("random_pairs", r["pairs"])
        chk.bump("random_compositions", r["compositions"])
        chk.bump("random_saturating_results", r["saturating_results"] + r["saturating_compositions"])
        for m in r["mismatches"] or []:
            chk.violation("C05/arith/bulk/%s%s" % (m["op"].split(":")[0], m["w"]), m)
    if res and "samples" in res[0]:
        chk.sample({"layer": "arith", "pair": res[0]["samples"][0]})
    # (c) width-narrowed copy, exhaustive
    nd, note = b.narrowdrv()
    chk.cov["narrowed_copy"] = note
    if nd is None:
        chk.cov["narrowed_exhaustive"] = "inconclusive: " + note
    else:
        p = subprocess.run([nd, "full"], stdout=subprocess.PIPE, stderr=subprocess.PIPE)
        if p.returncode != 0:
            chk.cov["narrowed_exhaustive"] = "inconclusive: driver failed"
        else:
            r = json.loads(p.stdout)
            chk.count(r["evaluations"])
            chk.cov["narrowed_exhaustive"] = {"evaluations": r["evaluations"], "exhaustive": True,
                                              "note": "uint32->uint8, uint64->uint16 copy of counts.go, all 2^16 / 2^32 operand pairs"}
            for m in r["mismatches"] or []:
                chk.violation("C05/arith/narrowed/%s%d" % (m["op"], m["w"]), m)


def layer_render(chk, b, tier):
    drv = b.apidrv()
    thresholds = ["0", "1", "30", "0.5", "31", "1e9", "1e300", "+Inf"]
    cases = []
    rng = random.Random("C05r|%d" % R.SEED)
    keys = list(O.CAPS)
    for k in keys:
        cap = O.CAPS[k]
        for v in (cap, cap - 1, 7):
            fields = {kk: rng.choice([0, 1, 5, 1000]) for kk in keys}
            fields[k] = v
            cases.append({"id": len(cases), "fields": fields, "thresholds": thresholds, "names": ["none"], "_k": k, "_v": v})
    # several saturated at once
    for _ in range(10 if tier == "quick" else 200):
        fields = {kk: rng.choice([0, 1, O.CAPS[kk], O.CAPS[kk] - 1, rng.getrandbits(30)]) for kk in keys}
        cases.append({"id": len(cases), "fields": fields, "thresholds": thresholds, "names": ["none"], "_k": None})
    obs, rc, err = R.drv(drv, "output", [{k: v for k, v in c.items() if not k.startswith("_")} for c in cases])
    if len(obs) != len(cases):
        chk.inconc("output driver returned %d of %d (stderr %r)" % (len(obs), len(cases), err[-300:]))
    v1_to_sym = {v1: sym for _, _, sym, v1, _, _, _ in P.TABLE_LAYOUT}
    nsat = 0
    for o in obs:
        c = cases[o["id"]]
        chk.count()
        if "panic" in o:
            chk.violation("C05/render/panic", {"fields": c["fields"], "panic": o["panic"]})
            continue
        rd = o["renders"][0]
        j1, probs = P.parse_json(base64.b64decode(rd["json1"]) + b"\n")
        j2, probs2 = P.parse_json(base64.b64decode(rd["json2"]) + b"\n")
        for k, v in c["fields"].items():
            sat = v == O.CAPS[k]
            if j1 is None or j1.get(k) != v:
                chk.violation("C05/render/json-v1-value", {"key": k, "want": v, "got": None if j1 is None else j1.get(k)})
            sym = v1_to_sym[k]
            if j2 is None or j2.get(sym, {}).get("value") != v:
                chk.violation("C05/render/json-v2-value", {"key": sym, "want": v, "got": None if j2 is None else j2.get(sym)})
            if sat:
                nsat += 1
            for ts in thresholds:
                tb = rd.get("table:" + ts)
                if tb is None:
                    chk.violation("C05/render/table-missing", {"threshold": ts, "info": {kk: vv for kk, vv in rd.items() if kk.startswith("panic")}})
                    continue
                tab = P.parse_table(base64.b64decode(tb))
                if tab.errors:
                    chk.violation("C05/render/table-unparsable", {"errors": tab.errors[:2]})
                    continue
                fixed, _ = P.table_metrics(tab)
                row = fixed.get(sym)
                if sat:
                    if row is None:
                        chk.violation("C05/render/saturated-row-hidden", {"key": k, "threshold": ts})
                    elif row.value != "∞".encode() or row.concern != b"!" * 30:
                        chk.violation("C05/render/saturated-row-wrong", {"key": k, "threshold": ts, "value": row.value, "concern": row.concern})
                elif row is not None and row.value == "∞".encode():
                    chk.violation("C05/render/infinity-for-unsaturated", {"key": k, "value": v, "threshold": ts})
    chk.cov["render_cases"] = len(obs)
    chk.cov["render_saturated_fields_checked"] = nsat
    chk.sample({"layer": "render", "field": cases[0]["_k"], "value": cases[0]["_v"], "thresholds": thresholds})


# ---------------------------------------------------------------------------
# repositories straddling the caps

def remainder_bomb(blob, digits, breadth=16):
    """Tree whose expanded file count is the base-`breadth` number with the given digits (most significant first)."""
    k = len(digits)
    full = [None] * k      # full[i]: bomb with breadth^i files (i>=1)
    t = None
    for i in range(1, k):
        if i == 1:
            t = G.Tree([G.Entry(G.FILE, b"f%02d" % j, blob) for j in range(breadth)])
        else:
            t = G.Tree([G.Entry(G.TREE, b"d%02d" % j, t) for j in range(breadth)])
        full[i] = t
    rem = None
    for pos in range(k - 1, -1, -1):      # least significant digit first
        level = k - 1 - pos              # 0 = files directly
        d = digits[pos]
        ents = []
        if level == 0:
            ents = [G.Entry(G.FILE, b"r%02d" % j, blob) for j in range(d)]
        else:
            ents = [G.Entry(G.TREE, b"s%02d" % j, full[level]) for j in range(d)]
            if rem is not None:
                ents.append(G.Entry(G.TREE, b"rem", rem))
        rem = G.Tree(ents)
    return rem


def cap_cases(tier):
    """list of (name, builder(rng)->(Model, extra_true_overrides))"""
    cases = []

    def bomb_case(depth, breadth, size):
        def f(rng):
            m = G.Model()
            t = G.bomb(depth, breadth, G.Blob(b"x" * size))
            m.refs["refs/heads/main"] = G.Commit(t, [])
            return m
        return ("bomb d=%d b=%d blob=%d" % (depth, breadth, size), f)

    for d in (7, 8, 9, 12, 16):
        cases.append(bomb_case(d, 16, 6))
    cases.append(bomb_case(11, 16, 2 ** 20))      # bytes: 2^20 * 16^11 = 2^64
    cases.append(bomb_case(10, 16, 2 ** 20))      # bytes: 2^60
    cases.append(bomb_case(12, 16, 2 ** 16 - 1))
    cases.append(bomb_case(10, 10, 6))

    def wide_case(n):
        def f(rng):
            # two levels of n entries each: n*n files, and two consecutive tree objects of > 1 MiB in the object stream
            leaf = G.Tree([G.Entry(G.FILE, b"f%05d" % i, G.Blob(b"x")) for i in range(n)], presorted=True)
            root = G.Tree([G.Entry(G.TREE, b"d%05d" % i, leaf) for i in range(n)], presorted=True)
            m = G.Model()
            m.refs["refs/heads/main"] = G.Commit(root, [])
            return m
        return ("wide bomb %d x %d" % (n, n), f)
    cases.append(wide_case(65536))
    if tier != "quick":
        for d in (6, 10, 11, 13, 20, 33):
            cases.append(bomb_case(d, 16, 1))
        cases.append(bomb_case(33, 4, 3))
        cases.append(bomb_case(64, 2, 1))

    def digits_case(ds, extra):
        def f(rng):
            m = G.Model()
            blob = G.Blob(b"y" * 3)
            t = remainder_bomb(blob, ds)
            if extra:
                t = G.Tree([G.Entry(G.TREE, b"all", t)] + [G.Entry(G.FILE, b"x%d" % i, blob) for i in range(extra)])
            m.refs["refs/heads/main"] = G.Commit(t, [])
            return m
        return ("files=0x%s+%d" % ("".join("%X" % d for d in ds), extra), f)

    F = [15] * 8
    cases.append(digits_case(F[:-1] + [14], 0))     # 2^32-2
    cases.append(digits_case(F, 0))                  # 2^32-1
    cases.append(digits_case(F, 1))                  # 2^32
    cases.append(digits_case(F, 2))
    cases.append(digits_case([1] + [0] * 8, 0))
    cases.append(digits_case([7, 15, 15, 15, 15, 15, 15, 15], 0))   # 2^31-1

    def links_subs(rng):
        m = G.Model()
        blob = G.Blob(b"l")
        t = G.Tree([G.Entry(G.LINK, b"l%02d" % j, blob) for j in range(16)] +
                   [G.Entry(G.GITLINK, b"m%02d" % j, "%040x" % (j + 1)) for j in range(16)])
        for _ in range(8):
            t = G.Tree([G.Entry(G.TREE, b"d%02d" % j, t) for j in range(16)])
        m.refs["refs/heads/main"] = G.Commit(t, [])
        return m
    cases.append(("links+gitlinks 16^9", links_subs))

    def declared(sizes, via):
        def f(rng):
            m = G.Model()
            blobs = [G.Blob(b"tiny%d" % i, declared_size=s) for i, s in enumerate(sizes)]
            if via == "tree":
                t = G.Tree([G.Entry(G.FILE, b"huge%d" % i, bl) for i, bl in enumerate(blobs)])
                t = G.Tree([G.Entry(G.TREE, b"a", t), G.Entry(G.TREE, b"b", t)])
                m.refs["refs/heads/main"] = G.Commit(t, [])
            elif via == "ref":
                m.refs["refs/heads/main"] = G.Commit(G.Tree([]), [])
                for i, bl in enumerate(blobs):
                    m.refs["refs/blobs/b%d" % i] = bl
            elif via == "tag":
                for i, bl in enumerate(blobs):
                    m.refs["refs/tags/b%d" % i] = G.Tag(bl, name=b"b%d" % i)
            return m
        return ("declared-size blobs %s via %s" % (sizes, via), f)

    cases.append(declared([3 * 2 ** 30, 3 * 2 ** 30 + 1], "tree"))      # sum > 2^32, each < 2^32
    cases.append(declared([2 ** 32 - 1], "tree"))
    cases.append(declared([2 ** 32 - 2, 5], "tree"))
    cases.append(declared([2 ** 32], "tree"))                           # single object > cap32
    cases.append(declared([5 * 2 ** 30], "tree"))
    cases.append(declared([5 * 2 ** 30], "tag"))
    cases.append(declared([5 * 2 ** 30], "ref"))                        # for-each-ref size column > 32 bits
    cases.append(declared([2 ** 40, 2 ** 40 + 1, 7], "tree"))
    # sums of blob sizes straddling 2^64 (the 64-bit totals must saturate, however the headers arrive)
    cases.append(declared([2 ** 63, 2 ** 63], "tree"))
    cases.append(declared([2 ** 64 - 1, 1], "tree"))
    cases.append(declared([2 ** 63 + 5, 2 ** 63 - 6], "tree"))          # 2^64-1 exactly... minus 0: sum = 2^64 - 1
    cases.append(declared([2 ** 63 + 5, 2 ** 63 - 5, 7, 9], "tag"))
    cases.append(declared([2 ** 62] * 5, "ref"))
    return cases


def run_cap_case(arg):
    idx, name, binary, scratch, tier, shimdir, nperm = arg
    rng = random.Random("C05c|%d|%d" % (R.SEED, idx))
    builder = dict((n, f) for n, f in cap_cases(tier))[name]
    d = os.path.join(scratch, "cap%d" % idx)
    os.makedirs(d)
    out = {"name": name, "viol": [], "evals": 0, "sample": None, "saturated": [], "cpu": None, "trees": None}
    try:
        m = builder(rng)
        gitdir = G.write_model(m, os.path.join(d, "repo"))
        msg = G.selfcheck(gitdir, m.all_objects())
        if msg:
            out["viol"].append(("INCONCLUSIVE", "generator self-check: " + msg))
            return out
        ru0 = resource.getrusage(resource.RUSAGE_CHILDREN)
        r = R.sizer(binary, gitdir, ["--json", "--progress"], tmpdir=d, timeout=300, rlimit_cpu=60)
        ru1 = resource.getrusage(resource.RUSAGE_CHILDREN)
        out["cpu"] = (ru1.ru_utime + ru1.ru_stime) - (ru0.ru_utime + ru0.ru_stime)
        out["evals"] += 1
        ex = O.compute(list(m.refs.values()))
        ntrees = ex.true["unique_tree_count"]
        out["trees"] = ntrees
        out["objects"] = len(ex.reach)
        if r.timed_out or r.rc in (-24, -9) or r.rc == 128 + 24:
            out["viol"].append(("C05/linear-time/cpu-limit-or-watchdog", {"case": name, "rc": r.rc, "distinct_objects": len(ex.reach)}))
            return out
        if r.rc != 0:
            big_ref = any(o.kind == "blob" and o.size > U32 for o in m.refs.values())
            sig = "C05/run-failed/reference-points-at-object-larger-than-2^32" if big_ref else "C05/run-failed/other"
            out["viol"].append((sig, {"case": name, "rc": r.rc, "stderr": r.err[-400:]}))
            return out
        js, probs = P.parse_json(r.out)
        if js is None:
            out["viol"].append(("C05/bad-json", {"case": name, "problems": probs}))
            return out
        has_huge = any(o.kind == "blob" and o.size > U32 for o in ex.reach.values())
        for k in O.CAPS:
            if k == "reference_count":
                continue
            want = ex.sat(k)
            got = js.get(k)
            if ex.true[k] >= O.CAPS[k]:
                out["saturated"].append(k)
            if got != want:
                if has_huge and k in ("unique_blob_size", "max_expanded_blob_size"):
                    sig = "C05/caps/object-larger-than-2^32-clamped-before-64-bit-sum/" + k
                else:
                    sig = "C05/caps/value/" + k
                out["viol"].append((sig, {"case": name, "key": k, "want": want, "got": got, "true": ex.true[k]}))
        # linear time (i): trees processed == distinct trees
        frames, _, _ = P.parse_stderr(r.err)
        finals = {lab: cnt for lab, cnt, sp, term in frames if term == b"\n"}
        pt = finals.get(b"Processing trees")
        if pt is None:
            fl = [cnt for lab, cnt, sp, term in frames if term == b"\n"]
            pt = fl[1] if len(fl) >= 2 else None      # phases: blobs, trees, commits, ...
        if pt is None:
            out["viol"].append(("INCONCLUSIVE", "no 'Processing trees' final frame observed"))
        elif pt != ntrees:
            out["viol"].append(("C05/linear-time/trees-processed-differs-from-distinct-trees", {"case": name, "processed": pt, "distinct": ntrees}))
        # the same repository under other legal enumeration orders: subtrees delivered before / after the trees that
        # contain them (shim permute mode), and with the biggest subtrees made roots of their own (pending roots are
        # listed first, so they are already sized when their parents arrive)
        want_all = {k: ex.sat(k) for k in O.CAPS if k != "reference_count"}
        for k in range(nperm):
            pdir = os.path.join(d, "perm%d" % k)
            plan = R.make_plan(pdir, [{"sig": "rev-list", "ord": -1, "mode": "permute", "seed": rng.getrandbits(31)}])
            rp = R.sizer(binary, gitdir, ["--json", "--no-progress"], shimdir=shimdir, plan=plan, tmpdir=d, timeout=300, rlimit_cpu=60)
            out["evals"] += 1
            shutil.rmtree(pdir, ignore_errors=True)
            jp, _ = P.parse_json(rp.out) if rp.rc == 0 else (None, None)
            if jp is None:
                out["viol"].append(("C05/run-failed/permuted-listing", {"case": name, "rc": rp.rc, "stderr": rp.err[-300:]}))
                continue
            bad = {kk: [want_all[kk], jp.get(kk)] for kk in want_all if jp.get(kk) != want_all[kk] and not (has_huge and kk in ("unique_blob_size", "max_expanded_blob_size") and js.get(kk) == jp.get(kk))}
            if bad:
                out["viol"].append(("C05/caps/value-under-permuted-listing/" + sorted(bad)[0], {"case": name, "diff": bad}))
        # the same repository with the children's output arriving in different groupings (lines delivered one by one,
        # in pairs, in bursts with pauses): the totals must not depend on how many headers are waiting at a time
        for k in range(nperm):
            pdir = os.path.join(d, "grp%d" % k)
            rules = [{"sig": sg, "ord": -1, "mode": "delay", "chunk": rng.choice([1, 40, 55, 60, 110, 120, 170, 4096]),
                      "chunk_ms": rng.choice([1, 3, 8]), "pre_ms": rng.choice([0, 20]), "max_ms": 300}
                     for sg in ("cat-file --batch-check", "rev-list") if rng.random() < 0.8]
            if rng.random() < 0.6:
                # the second pass delivers all its objects in one piece at the end
                rules.append({"sig": "cat-file --batch", "ord": -1, "mode": "burst"})
            plan = R.make_plan(pdir, rules)
            rp = R.sizer(binary, gitdir, ["--json", "--no-progress"], shimdir=shimdir, plan=plan, tmpdir=d, timeout=300, rlimit_cpu=60,
                         env={"GOMAXPROCS": rng.choice(["1", "2", "4", "16"])})
            out["evals"] += 1
            shutil.rmtree(pdir, ignore_errors=True)
            jp, _ = P.parse_json(rp.out) if rp.rc == 0 else (None, None)
            if jp is None:
                out["viol"].append(("C05/run-failed/regrouped-output", {"case": name, "rc": rp.rc, "stderr": rp.err[-300:]}))
                continue
            bad = {kk: [want_all[kk], jp.get(kk)] for kk in want_all if jp.get(kk) != want_all[kk]}
            if bad:
                out["viol"].append(("C05/caps/value-under-regrouped-child-output/" + sorted(bad)[0], {"case": name, "diff": bad, "rules": rules}))
        class _C:
            def count(self, n=1): out["evals"] += n
            def bump(self, *a): pass
            def violation(self, sig, det): out["viol"].append((sig, dict(det, case=name)))
        R.fault_probe(_C(), "C05", binary, gitdir, ["--json", "--no-progress"], rng, shimdir, d, n=3, baseline=None)
        subtrees = [o for o in ex.reach.values() if o.kind == "tree" and any(e.kind == G.TREE for e in o.entries)]
        if subtrees and not has_huge:
            m2refs = dict(m.refs)
            subtrees.sort(key=lambda t: -ex.exp[t.oid]["dirs"])
            for i, t in enumerate(subtrees[1:4]):
                for e in t.entries:
                    if e.kind == G.TREE:
                        m2refs["refs/subtrees/s%d" % i] = e.child
                        break
            extra = {k: v for k, v in m2refs.items() if k not in m.refs}
            if extra:
                G.write_refs(gitdir, extra)
                rp = R.sizer(binary, gitdir, ["--json", "--no-progress"], tmpdir=d, timeout=300, rlimit_cpu=60)
                out["evals"] += 1
                jp, _ = P.parse_json(rp.out) if rp.rc == 0 else (None, None)
                if jp is None:
                    out["viol"].append(("C05/run-failed/subtrees-as-roots", {"case": name, "rc": rp.rc, "stderr": rp.err[-300:]}))
                else:
                    bad = {kk: [want_all[kk], jp.get(kk)] for kk in want_all if jp.get(kk) != want_all[kk]}
                    if bad:
                        out["viol"].append(("C05/caps/value-with-subtrees-delivered-first/" + sorted(bad)[0], {"case": name, "diff": bad}))
                for k in extra:
                    os.remove(os.path.join(gitdir, *k.split("/")))
        out["sample"] = {"case": name, "distinct_objects": len(ex.reach), "true_expanded_files": str(ex.true["max_expanded_blob_count"]),
                         "reported": js.get("max_expanded_blob_count"), "true_expanded_bytes": str(ex.true["max_expanded_blob_size"]),
                         "reported_bytes": js.get("max_expanded_blob_size"), "saturated_keys": out["saturated"]}
        # table rendering of the same repository: infinity sign and 30 '!' for saturated quantities
        r2 = R.sizer(binary, gitdir, ["--no-progress", "--threshold=1e30", "--names=none"], tmpdir=d, timeout=300)
        out["evals"] += 1
        if r2.rc == 0:
            if out["saturated"]:
                tab = P.parse_table(r2.out)
                fixed, _ = P.table_metrics(tab)
                v1_to_sym = {v1: sym for _, _, sym, v1, _, _, _ in P.TABLE_LAYOUT}
                for k in out["saturated"]:
                    if js.get(k) != O.CAPS[k]:
                        continue
                    row = fixed.get(v1_to_sym[k])
                    if row is None or row.value != "∞".encode() or row.concern != b"!" * 30:
                        out["viol"].append(("C05/caps/table-saturated-row", {"case": name, "key": k, "row": repr(row)}))
            elif r2.out != P.NOPROBLEMS:
                out["viol"].append(("C05/caps/threshold-1e30-shows-unsaturated-rows", {"case": name, "out": r2.out[:300]}))
        else:
            out["viol"].append(("C05/run-failed/table", {"case": name, "stderr": r2.err[-300:]}))
    finally:
        shutil.rmtree(d, ignore_errors=True)
    return out


def real_huge_blob_case(chk, binary, scratch):
    """Thorough tier: a REAL blob of 2^32+1 zero bytes (about 4 MB on disk after zlib), reached through a tree, to validate
    that the declared-size stand-ins behave like real objects."""
    import hashlib
    import zlib
    d = os.path.join(scratch, "realhuge")
    gitdir = G.init_repo(os.path.join(d, "repo"), bare=True)
    size = 2 ** 32 + 1
    hdr = b"blob %d\0" % size
    h = hashlib.sha1()
    h.update(hdr)
    co = zlib.compressobj(1)
    tmp = os.path.join(d, "blob.tmp")
    chunk = b"\0" * (1 << 24)
    with open(tmp, "wb") as f:
        f.write(co.compress(hdr))
        left = size
        while left > 0:
            n = min(left, len(chunk))
            h.update(chunk[:n])
            f.write(co.compress(chunk[:n]))
            left -= n
        f.write(co.flush())
    oid = h.hexdigest()
    os.makedirs(os.path.join(gitdir, "objects", oid[:2]), exist_ok=True)
    os.rename(tmp, os.path.join(gitdir, "objects", oid[:2], oid[2:]))

    class RealBlob(G.Blob):
        pass
    b_ = G.Blob(b"", declared_size=size)
    b_._oid = oid
    m = G.Model()
    t = G.Tree([G.Entry(G.FILE, b"zeros.bin", b_), G.Entry(G.FILE, b"small", G.Blob(b"abc"))])
    m.refs["refs/heads/main"] = G.Commit(G.Tree([G.Entry(G.TREE, b"a", t), G.Entry(G.TREE, b"b", t)]), [])
    objdir = os.path.join(gitdir, "objects")
    for o in m.all_objects().values():
        if o is not b_:
            G.write_loose(objdir, o)
    G.write_refs(gitdir, m.refs)
    p = G.rgit(gitdir, "cat-file", "--batch-check", input=(oid + "\n").encode(), check=False)
    if p.stdout.decode().split() != [oid, "blob", str(size)]:
        chk.inconc("generator: git does not see the real 4 GiB blob as written: %r" % p.stdout[:100])
        return
    r = R.sizer(binary, gitdir, ["--json", "--no-progress"], tmpdir=d, timeout=600)
    chk.count()
    js, _ = P.parse_json(r.out) if r.rc == 0 else (None, None)
    if js is None:
        chk.violation("C05/run-failed/real-4GiB-blob", {"rc": r.rc, "stderr": r.err[-300:]})
    else:
        ex = O.compute(list(m.refs.values()))
        bad = {k: [ex.sat(k), js.get(k)] for k in O.CAPS if k != "reference_count" and js.get(k) != ex.sat(k)}
        if bad:
            chk.violation("C05/caps/value/real-4GiB-blob/" + sorted(bad)[0], {"diff": bad})
        chk.nontrivial("real-4GiB-blob")
        chk.sample({"case": "real blob of 2^32+1 bytes", "max_blob_size": js.get("max_blob_size"), "unique_blob_size": js.get("unique_blob_size"),
                    "max_expanded_blob_size": js.get("max_expanded_blob_size")}, limit=20)
    shutil.rmtree(d, ignore_errors=True)


def control_cpu(binary, scratch, nobjects):
    """CPU time of a scan of a repository with about `nobjects` distinct objects and no repetition."""
    rng = random.Random("ctl")
    m = G.Model()
    blobs = [G.Blob(b"c%d" % i) for i in range(max(1, nobjects // 2))]
    trees = []
    for i in range(0, len(blobs), 4):
        trees.append(G.Tree([G.Entry(G.FILE, b"f%d" % j, bl) for j, bl in enumerate(blobs[i:i + 4])]))
    top = G.Tree([G.Entry(G.TREE, b"t%d" % i, t) for i, t in enumerate(trees)])
    m.refs["refs/heads/main"] = G.Commit(top, [])
    d = os.path.join(scratch, "control")
    gitdir = G.write_model(m, os.path.join(d, "repo"))
    best = None
    for _ in range(3):
        ru0 = resource.getrusage(resource.RUSAGE_CHILDREN)
        r = R.sizer(binary, gitdir, ["--json", "--no-progress"], tmpdir=d)
        ru1 = resource.getrusage(resource.RUSAGE_CHILDREN)
        cpu = (ru1.ru_utime + ru1.ru_stime) - (ru0.ru_utime + ru0.ru_stime)
        best = cpu if best is None else max(best, cpu)
    shutil.rmtree(d, ignore_errors=True)
    return best


def run(chk, b, tier):
    layer_arith(chk, b, tier)
    layer_render(chk, b, tier)
    sz = b.sizer()
    scratch = b.scratchdir()
    names = [n for n, _ in cap_cases(tier)]
    # sequential in the parent for clean rusage accounting would be slow; use 8 workers (each measures its own children)
    shimdir = b.shimdir()
    nperm = 4 if tier == "quick" else 12
    res = R.pmap(run_cap_case, [(i, n, sz, scratch, tier, shimdir, nperm) for i, n in enumerate(names)], nproc=8, chk=chk)
    if tier != "quick":
        real_huge_blob_case(chk, sz, scratch)
    ctl = control_cpu(sz, scratch, 60)
    chk.cov["control_cpu_s"] = round(ctl, 4)
    nsat = 0
    cpus = {}
    for r in res:
        chk.count(r["evals"])
        for sig, det in r["viol"]:
            if sig == "INCONCLUSIVE":
                chk.inconc(det)
            else:
                chk.violation(sig, det)
        if r["saturated"]:
            nsat += 1
            chk.nontrivial("cap:" + r["name"])
        if r["sample"]:
            chk.sample(r["sample"], limit=12)
        if r["cpu"] is not None and r.get("objects"):
            cpus[r["name"]] = round(r["cpu"], 4)
            # linear time (ii): CPU time vs a control with at least as many distinct objects (60 > any bomb here)
            if r["objects"] <= 60 and r["cpu"] > 50 * max(ctl, 0.02):
                chk.violation("C05/linear-time/cpu-time", {"case": r["name"], "cpu_s": r["cpu"], "control_cpu_s": ctl,
                                                           "distinct_objects": r["objects"]})
    chk.cov["cap_repositories"] = len(res)
    chk.cov["cap_repositories_with_a_saturated_quantity"] = nsat
    chk.cov["cpu_seconds_per_cap_repository"] = cpus
    chk.cov["distinct_nontrivial"] = nsat + chk.cov.get("boundary_cases_saturating", 0)
    from ._camp import generic_fault_sweep
    generic_fault_sweep(chk, b, "C05", [['--json', '--no-progress'], ['-v', '--no-progress']])
    chk.cov["rule"] = ("(1) arithmetic: real counts.Count32/Count64 operations on the boundary set x boundary set (python big-int "
                       "oracle), seeded random pairs and 1-50 step compositions incl. 32->64 bit flows (Go integer reference via "
                       "math/bits), and ALL operand pairs of a go/ast width-narrowed copy of counts.go (8/16 bit); (2) rendering: "
                       "synthetic HistorySize with each field at cap / cap-1 through the real TableString/JSON for 8 thresholds; "
                       "(3) repositories straddling the caps: git bombs (16^k files, exact base-16 remainder bombs at 2^32-2, "
                       "2^32-1, 2^32, 2^32+1; 2^20-byte blob x 16^11 = 2^64 bytes), blobs with declared sizes >= 2^32 reached "
                       "through trees, tags and refs; every number vs min(true, cap); 'Processing trees' final count == number "
                       "of distinct trees; CPU time of the scan <= 50x a no-repetition control and under RLIMIT_CPU 60 s. "
                       "Non-trivial: the case drives some quantity to its cap.")
    chk.assumptions += ["declared-size loose blobs (tiny body, large size in the object header) stand in for real >4 GiB blobs: "
                        "rev-list/cat-file --batch-check only read the header",
                        "the width-narrowed copy is evidence about a mechanically derived copy of counts.go, reported separately"]
