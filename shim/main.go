// Command shim is installed as `git` first on PATH of a git-sizer run.  It runs
// the real git and, according to a plan file, records, delays, truncates/kills
// or legally permutes the output of individual git invocations.  It adds no
// behaviour a real git could not show (slow, dying, enumerating in another
// legal order).
package main

import (
	"bufio"
	"bytes"
	"encoding/json"
	"fmt"
	"io"
	"math/rand"
	"os"
	"os/exec"
	"path/filepath"
	"strings"
	"syscall"
	"time"
)

type Rule struct {
	Sig  string `json:"sig"`
	Ord  int    `json:"ord"` // -1 = any
	Mode string `json:"mode"`

	// fault
	AfterBytes int64  `json:"after_bytes"`
	Term       string `json:"term"` // exit:N | sig:KILL|TERM|SEGV|ABRT
	BeforeExec bool   `json:"before_exec"`
	Stderr     string `json:"stderr"`
	LingerMs   int    `json:"linger_ms"` // fault: stdout is closed at the fault point, the process fails only this much later

	// delay
	PreMs   int `json:"pre_ms"`
	Chunk   int `json:"chunk"`
	ChunkMs int `json:"chunk_ms"`
	ExitMs  int `json:"exit_ms"`
	MaxMs   int `json:"max_ms"`

	// permute
	Seed int64 `json:"seed"`

	// delay: files that disappear while this child is waiting to start (somebody prunes or repacks the repository during
	// the scan); removed after the pre_ms pause, just before the real git is started
	Unlink []string `json:"unlink"`
}

type Plan struct {
	Real   string `json:"real"`
	Dir    string `json:"dir"` // directory for counters and logs
	Record bool   `json:"record"`
	Rules  []Rule `json:"rules"`
	// RecordStdin: keep a copy of what the children that read object names (rev-list --stdin, cat-file --batch[-check])
	// receive on stdin, in <dir>/stdin.<signature>.<ordinal>
	RecordStdin bool `json:"record_stdin"`
}

type Event struct {
	Sig       string   `json:"sig"`
	Ord       int      `json:"ord"`
	Argv      []string `json:"argv,omitempty"`
	Pid       int      `json:"pid"`
	TStart    int64    `json:"t_start"`
	TFirstOut int64    `json:"t_first_out"`
	TEOF      int64    `json:"t_eof"`
	TExit     int64    `json:"t_exit"`
	BytesOut  int64    `json:"bytes_out"`
	RealBytes int64    `json:"real_bytes"`
	Status    string   `json:"status"`
	Mode      string   `json:"mode"`
	Delivered string   `json:"delivered,omitempty"`
	Lines     []string `json:"lines,omitempty"`
}

func now() int64 { return time.Now().UnixNano() }

func signature(args []string) string {
	i := 0
	for i < len(args) {
		a := args[i]
		switch {
		case a == "--no-replace-objects":
			i++
		case a == "-c" || a == "-C" || a == "--git-dir":
			i += 2
		case strings.HasPrefix(a, "--git-dir="):
			i++
		default:
			goto done
		}
	}
done:
	if i >= len(args) {
		return "none"
	}
	rest := args[i:]
	switch rest[0] {
	case "rev-parse":
		if len(rest) > 1 {
			return "rev-parse " + rest[1]
		}
	case "config":
		for _, a := range rest[1:] {
			if a == "--list" {
				return "config --list"
			}
		}
		return "config --get " + rest[len(rest)-1]
	case "cat-file":
		for _, a := range rest[1:] {
			if a == "--batch-check" || a == "--batch" {
				return "cat-file " + a
			}
		}
	}
	return rest[0]
}

func fileSafe(s string) string {
	r := strings.NewReplacer(" ", "_", "/", "_", ".", "_")
	return r.Replace(s)
}

func ordinal(dir, sig string) int {
	for n := 0; ; n++ {
		f, err := os.OpenFile(filepath.Join(dir, fmt.Sprintf("ctr.%s.%d", fileSafe(sig), n)),
			os.O_CREATE|os.O_EXCL|os.O_WRONLY, 0o644)
		if err == nil {
			f.Close()
			return n
		}
		if n > 100000 {
			return -1
		}
	}
}

func logEvent(dir string, ev *Event) {
	b, _ := json.Marshal(ev)
	b = append(b, '\n')
	f, err := os.OpenFile(filepath.Join(dir, "events.jsonl"), os.O_CREATE|os.O_APPEND|os.O_WRONLY, 0o644)
	if err != nil {
		return
	}
	f.Write(b)
	f.Close()
}

func die(term string) {
	if strings.HasPrefix(term, "exit:") {
		var n int
		fmt.Sscanf(term[5:], "%d", &n)
		os.Exit(n)
	}
	if strings.HasPrefix(term, "sig:") {
		// exec a shell that kills itself: default disposition, same pid.
		syscall.Exec("/bin/sh", []string{"sh", "-c", "kill -" + term[4:] + " $$"}, os.Environ())
	}
	os.Exit(3)
}

func main() {
	args := os.Args[1:]
	planPath := os.Getenv("VERIF_SHIM_PLAN")
	real := "/usr/bin/git"
	if planPath == "" {
		syscall.Exec(real, append([]string{"git"}, args...), os.Environ())
		os.Exit(127)
	}
	var plan Plan
	b, err := os.ReadFile(planPath)
	if err == nil {
		err = json.Unmarshal(b, &plan)
	}
	if err != nil {
		fmt.Fprintf(os.Stderr, "shim: bad plan: %v\n", err)
		os.Exit(99)
	}
	if plan.Real != "" {
		real = plan.Real
	}
	sig := signature(args)
	ord := ordinal(plan.Dir, sig)
	var rule *Rule
	for i := range plan.Rules {
		r := &plan.Rules[i]
		if r.Sig == sig && (r.Ord == -1 || r.Ord == ord) {
			rule = r
			break
		}
	}
	if rule == nil && !plan.Record {
		syscall.Exec(real, append([]string{"git"}, args...), os.Environ())
		os.Exit(127)
	}
	ev := &Event{Sig: sig, Ord: ord, Pid: os.Getpid(), TStart: now(), Mode: "record"}
	if rule != nil {
		ev.Mode = rule.Mode
	} else {
		rule = &Rule{Mode: "record"}
	}
	if sig == "rev-parse --verify" || strings.HasPrefix(sig, "config") {
		ev.Argv = args
	}

	if rule.Mode == "fault" && rule.PreMs > 0 {
		// stay alive without reading stdin for a while (the writer fills the pipe and blocks), then fail
		time.Sleep(time.Duration(rule.PreMs) * time.Millisecond)
	}
	if rule.Mode == "fault" && rule.BeforeExec {
		if rule.Stderr != "" {
			fmt.Fprint(os.Stderr, rule.Stderr)
		}
		ev.Delivered = "before_exec " + rule.Term
		ev.Status = rule.Term
		ev.TExit = now()
		logEvent(plan.Dir, ev)
		die(rule.Term)
	}
	slept := 0
	sleep := func(ms int) {
		if ms <= 0 {
			return
		}
		if rule.MaxMs > 0 && slept+ms > rule.MaxMs {
			ms = rule.MaxMs - slept
			if ms <= 0 {
				return
			}
		}
		slept += ms
		time.Sleep(time.Duration(ms) * time.Millisecond)
	}
	if rule.Mode == "delay" {
		sleep(rule.PreMs)
		for _, f := range rule.Unlink {
			if os.Remove(f) == nil {
				ev.Delivered += "unlinked " + filepath.Base(f) + " "
			}
		}
	}

	cmd := exec.Command(real, args...)
	cmd.Stdin = os.Stdin
	teeStdin := plan.RecordStdin && (sig == "rev-list" || sig == "cat-file --batch-check" || sig == "cat-file --batch")
	if teeStdin {
		if f, err := os.Create(filepath.Join(plan.Dir, fmt.Sprintf("stdin.%s.%d", fileSafe(sig), ord))); err == nil {
			defer f.Close()
			cmd.Stdin = io.TeeReader(os.Stdin, f)
		} else {
			teeStdin = false
		}
	}
	cmd.Stderr = os.Stderr
	pr, err := cmd.StdoutPipe()
	if err != nil {
		os.Exit(98)
	}
	if err := cmd.Start(); err != nil {
		fmt.Fprintf(os.Stderr, "shim: cannot start real git: %v\n", err)
		os.Exit(97)
	}
	out := os.Stdout
	write := func(p []byte) {
		if len(p) == 0 {
			return
		}
		if ev.TFirstOut == 0 {
			ev.TFirstOut = now()
		}
		n, err := out.Write(p)
		ev.BytesOut += int64(n)
		if err != nil {
			// downstream went away
			cmd.Process.Kill()
			cmd.Wait()
			ev.Status = "epipe"
			ev.TExit = now()
			logEvent(plan.Dir, ev)
			os.Exit(141)
		}
	}

	switch rule.Mode {
	case "permute":
		data, _ := io.ReadAll(pr)
		ev.RealBytes = int64(len(data))
		lines := bytes.SplitAfter(data, []byte("\n"))
		if len(lines) > 0 && len(lines[len(lines)-1]) == 0 {
			lines = lines[:len(lines)-1]
		}
		var commits, others [][]byte
		for _, l := range lines {
			t := bytes.TrimRight(l, "\n")
			if len(t) == 40 {
				commits = append(commits, l)
			} else {
				others = append(others, l)
			}
		}
		rng := rand.New(rand.NewSource(rule.Seed))
		rng.Shuffle(len(others), func(i, j int) { others[i], others[j] = others[j], others[i] })
		w := bufio.NewWriter(out)
		for _, l := range commits {
			w.Write(l)
		}
		for _, l := range others {
			w.Write(l)
			if len(ev.Lines) < 400 {
				ev.Lines = append(ev.Lines, string(l[:8]))
			}
		}
		if ev.TFirstOut == 0 {
			ev.TFirstOut = now()
		}
		w.Flush()
		ev.BytesOut = int64(len(data))
		ev.Delivered = fmt.Sprintf("permuted %d non-commit lines", len(others))
	case "fault":
		buf := make([]byte, 65536)
		remaining := rule.AfterBytes
		faulted := false
		for !faulted {
			n, rerr := pr.Read(buf)
			ev.RealBytes += int64(n)
			p := buf[:n]
			if int64(len(p)) >= remaining {
				p = p[:remaining]
				faulted = true
			}
			write(p)
			remaining -= int64(len(p))
			if rerr != nil {
				break
			}
		}
		// whether or not the real output was shorter than planned, terminate abnormally now
		cmd.Process.Kill()
		if teeStdin {
			// (cmd.Wait would also wait for the stdin copier, which may sit in a read of our own stdin)
			cmd.Process.Wait()
		} else {
			cmd.Wait()
		}
		if rule.Stderr != "" {
			fmt.Fprint(os.Stderr, rule.Stderr)
		}
		ev.Delivered = fmt.Sprintf("after %d bytes %s", ev.BytesOut, rule.Term)
		ev.Status = rule.Term
		ev.TEOF = now()
		if rule.LingerMs > 0 {
			// downstream sees end of file now and the failure only later (a child stuck in its exit path); the event is
			// logged first because the parent may kill us while we linger
			out.Close()
			ev.Delivered += fmt.Sprintf(" lingering %d ms", rule.LingerMs)
			ev.TExit = now()
			logEvent(plan.Dir, ev)
			time.Sleep(time.Duration(rule.LingerMs) * time.Millisecond)
			die(rule.Term)
		}
		ev.TExit = now()
		logEvent(plan.Dir, ev)
		die(rule.Term)
	case "burst":
		// a child that buffers everything and writes it in one go when it is done (stdio buffering up to the end is
		// legal for every one of these commands)
		data, _ := io.ReadAll(pr)
		ev.RealBytes = int64(len(data))
		write(data)
		ev.Delivered = fmt.Sprintf("burst of %d bytes", len(data))
	case "delay":
		chunk := rule.Chunk
		if chunk <= 0 {
			chunk = 65536
		}
		buf := make([]byte, chunk)
		for {
			n, rerr := pr.Read(buf)
			ev.RealBytes += int64(n)
			write(buf[:n])
			if n > 0 {
				sleep(rule.ChunkMs)
			}
			if rerr != nil {
				break
			}
		}
		ev.Delivered += fmt.Sprintf("slept %d ms", slept)
	default: // record
		buf := make([]byte, 65536)
		for {
			n, rerr := pr.Read(buf)
			ev.RealBytes += int64(n)
			write(buf[:n])
			if rerr != nil {
				break
			}
		}
	}
	ev.TEOF = now()
	werr := cmd.Wait()
	if rule.Mode == "delay" && rule.ExitMs > 0 {
		// a process that has finished its output but lingers before exiting: downstream sees EOF now, the exit status later
		out.Close()
		sleep(rule.ExitMs)
	}
	code := 0
	ev.Status = "exit:0"
	if werr != nil {
		if ee, ok := werr.(*exec.ExitError); ok {
			ws := ee.Sys().(syscall.WaitStatus)
			if ws.Signaled() {
				ev.Status = "sig:" + ws.Signal().String()
				ev.TExit = now()
				logEvent(plan.Dir, ev)
				syscall.Exec("/bin/sh", []string{"sh", "-c", fmt.Sprintf("kill -%d $$", int(ws.Signal()))}, os.Environ())
			}
			code = ws.ExitStatus()
			ev.Status = fmt.Sprintf("exit:%d", code)
		} else {
			code = 96
		}
	}
	ev.TExit = now()
	logEvent(plan.Dir, ev)
	os.Exit(code)
}
