"""Repository model + writer (python stdlib only).

The model is an in-memory object graph; the writer serialises objects itself
(zlib + SHA-1 loose objects) so that bytes, header order and names are fully
controlled.  Nothing here parses git-sizer output.
"""
import hashlib
import os
import random
import subprocess
import zlib

REAL_GIT = os.environ.get("VERIF_REAL_GIT", "/usr/bin/git")

EMPTY_TREE = "4b825dc642cb6eb9a060e54bf8d69288fbee4904"


def git_env(extra=None):
    env = {
        "PATH": "/usr/bin:/bin",
        "HOME": "/nonexistent",
        "GIT_CONFIG_GLOBAL": "/dev/null",
        "GIT_CONFIG_SYSTEM": "/dev/null",
        "GIT_CONFIG_NOSYSTEM": "1",
        "LC_ALL": "C",
        "TZ": "UTC",
    }
    if extra:
        env.update(extra)
    return env


def rgit(gitdir, *args, input=None, check=True, env=None):
    """Run the real git on a repository (generator / judge side only)."""
    cmd = [REAL_GIT, "--git-dir", gitdir] + list(args)
    p = subprocess.run(cmd, input=input, stdout=subprocess.PIPE,
                       stderr=subprocess.PIPE, env=git_env(env))
    if check and p.returncode != 0:
        raise RuntimeError("git %r failed (%d): %s" % (args, p.returncode, p.stderr[:400]))
    return p


class Obj:
    __slots__ = ("kind", "_body", "_oid", "declared_size")

    def body(self):
        return self._body

    @property
    def oid(self):
        if self._oid is None:
            b = self.body()
            n = self.declared_size if self.declared_size is not None else len(b)
            h = hashlib.sha1()
            h.update(b"%s %d\0" % (self.kind.encode(), n))
            h.update(b)
            self._oid = h.hexdigest()
        return self._oid

    @property
    def size(self):
        """The size git reports for the object (declared in its header)."""
        if self.declared_size is not None:
            return self.declared_size
        return len(self.body())


class Blob(Obj):
    kind = "blob"
    __slots__ = ()

    def __init__(self, data=b"", declared_size=None):
        self._body = data
        self._oid = None
        self.declared_size = declared_size


# entry kinds
FILE, EXEC, LINK, GITLINK, TREE = "file", "exec", "link", "gitlink", "tree"
MODES = {FILE: b"100644", EXEC: b"100755", LINK: b"120000", GITLINK: b"160000", TREE: b"40000"}


class Entry:
    __slots__ = ("kind", "name", "child", "mode")

    def __init__(self, kind, name, child, mode=None):
        self.kind = kind      # FILE/EXEC/LINK/GITLINK/TREE
        self.name = name      # bytes
        self.child = child    # Obj, or hex string for gitlinks
        self.mode = mode or MODES[kind]

    def child_oid(self):
        return self.child if isinstance(self.child, str) else self.child.oid


def _tree_sort_key(e):
    return e.name + (b"/" if e.kind == TREE else b"")


class Tree(Obj):
    kind = "tree"
    __slots__ = ("entries",)

    def __init__(self, entries=(), presorted=False):
        ents = list(entries)
        if not presorted:
            ents.sort(key=_tree_sort_key)
        self.entries = ents
        self._body = None
        self._oid = None
        self.declared_size = None
        self.oid  # eager: children were constructed (and hashed) before, so no deep recursion

    def body(self):
        if self._body is None:
            parts = []
            for e in self.entries:
                parts.append(e.mode + b" " + e.name + b"\0" + bytes.fromhex(e.child_oid()))
            self._body = b"".join(parts)
        return self._body


class Commit(Obj):
    kind = "commit"
    __slots__ = ("tree", "parents", "ats", "cts", "extra", "msg", "raw_tail")

    def __init__(self, tree, parents=(), cts=1112911993, ats=None, extra=(), msg=b"msg\n",
                 raw_tail=None):
        self.tree = tree
        self.parents = list(parents)
        self.cts = cts
        self.ats = cts if ats is None else ats
        self.extra = list(extra)   # list of raw header blocks (bytes, each ending in LF)
        self.msg = msg             # bytes after the blank line; None => no blank line at all
        self.raw_tail = raw_tail
        self._body = None
        self._oid = None
        self.declared_size = None
        self.oid

    def body(self):
        if self._body is None:
            p = [b"tree " + self.tree.oid.encode() + b"\n"]
            for par in self.parents:
                p.append(b"parent " + par.oid.encode() + b"\n")
            p.append(b"author A U Thor <author@example.com> %d +0000\n" % self.ats)
            p.append(b"committer C O Mitter <committer@example.com> %d +0000\n" % self.cts)
            p.extend(self.extra)
            if self.msg is not None:
                p.append(b"\n")
                p.append(self.msg)
            self._body = b"".join(p)
        return self._body


class Tag(Obj):
    kind = "tag"
    __slots__ = ("target", "name", "ts", "msg", "extra")

    def __init__(self, target, name=b"t", ts=1112911993, msg=b"tag msg\n", extra=()):
        self.target = target
        self.name = name
        self.ts = ts
        self.msg = msg
        self.extra = list(extra)
        self._body = None
        self._oid = None
        self.declared_size = None
        self.oid

    def body(self):
        if self._body is None:
            p = [b"object " + self.target.oid.encode() + b"\n",
                 b"type " + self.target.kind.encode() + b"\n",
                 b"tag " + self.name + b"\n",
                 b"tagger T A Gger <tagger@example.com> %d +0000\n" % self.ts]
            p.extend(self.extra)
            if self.msg is not None:
                p.append(b"\n")
                p.append(self.msg)
            self._body = b"".join(p)
        return self._body


class Model:
    """A repository: refs (name -> Obj), extra loose objects, HEAD."""

    def __init__(self):
        self.refs = {}        # str -> Obj
        self.noise = []       # Objs that are written but unreachable from refs
        self.head = "ref: refs/heads/main"   # or a detached Obj
        self.config = ""      # text appended to config
        self.bare = True

    def all_objects(self, roots=None):
        """Every object reachable from refs + noise + detached head (for writing)."""
        seen = {}
        stack = list(self.refs.values()) + list(self.noise)
        if isinstance(self.head, Obj):
            stack.append(self.head)
        if roots:
            stack.extend(roots)
        while stack:
            o = stack.pop()
            if o.oid in seen:
                continue
            seen[o.oid] = o
            stack.extend(children(o))
        return seen


def children(o):
    if o.kind == "commit":
        return [o.tree] + o.parents
    if o.kind == "tree":
        return [e.child for e in o.entries if e.kind != GITLINK]
    if o.kind == "tag":
        return [o.target]
    return []


def write_loose(objdir, o, level=1):
    oid = o.oid
    d = os.path.join(objdir, oid[:2])
    f = os.path.join(d, oid[2:])
    if os.path.exists(f):
        return
    os.makedirs(d, exist_ok=True)
    b = o.body()
    n = o.declared_size if o.declared_size is not None else len(b)
    raw = b"%s %d\0" % (o.kind.encode(), n) + b
    with open(f, "wb") as fh:
        fh.write(zlib.compress(raw, level))


def init_repo(path, bare=True, config=""):
    """Create an empty repository by hand; returns the git dir."""
    gitdir = path if bare else os.path.join(path, ".git")
    os.makedirs(os.path.join(gitdir, "objects", "info"), exist_ok=True)
    os.makedirs(os.path.join(gitdir, "objects", "pack"), exist_ok=True)
    os.makedirs(os.path.join(gitdir, "info"), exist_ok=True)
    os.makedirs(os.path.join(gitdir, "refs", "heads"), exist_ok=True)
    os.makedirs(os.path.join(gitdir, "refs", "tags"), exist_ok=True)
    with open(os.path.join(gitdir, "HEAD"), "w") as f:
        f.write("ref: refs/heads/main\n")
    with open(os.path.join(gitdir, "config"), "w") as f:
        f.write("[core]\n\trepositoryformatversion = 0\n\tfilemode = true\n\tbare = %s\n"
                % ("true" if bare else "false"))
        f.write(config)
    return gitdir


def write_model(model, path, skip_empty_tree=False, packed_refs=False):
    """Write `model` to `path`; returns gitdir."""
    gitdir = init_repo(path, bare=model.bare, config=model.config)
    objdir = os.path.join(gitdir, "objects")
    for oid, o in model.all_objects().items():
        if skip_empty_tree and oid == EMPTY_TREE:
            continue
        write_loose(objdir, o)
    write_refs(gitdir, model.refs, packed=packed_refs)
    if isinstance(model.head, Obj):
        with open(os.path.join(gitdir, "HEAD"), "w") as f:
            f.write(model.head.oid + "\n")
    else:
        with open(os.path.join(gitdir, "HEAD"), "w") as f:
            f.write(model.head + "\n")
    return gitdir


def make_promisor(gitdir):
    """Turn the repository into what `git clone --filter=...` leaves behind when the filter happened to omit nothing: all
    reachable objects in a pack marked .promisor, a promisor remote and extensions.partialClone. Nothing is missing, so git
    never needs to fetch. Returns False if git could not repack."""
    p = subprocess.run([REAL_GIT, "--git-dir", gitdir, "repack", "-adq"], env=git_env(), stdout=subprocess.PIPE, stderr=subprocess.PIPE)
    packdir = os.path.join(gitdir, "objects", "pack")
    packs = [f for f in os.listdir(packdir) if f.endswith(".pack")]
    if p.returncode != 0 or not packs:
        return False
    for f in packs:
        open(os.path.join(packdir, f[:-5] + ".promisor"), "w").close()
    cfgp = os.path.join(gitdir, "config")
    t = open(cfgp, encoding="utf-8", errors="surrogateescape").read().replace("repositoryformatversion = 0", "repositoryformatversion = 1")
    t += '[remote "origin"]\n\turl = /nonexistent/promisor-remote.git\n\tpromisor = true\n\tpartialclonefilter = blob:limit=1g\n' \
         '[extensions]\n\tpartialClone = origin\n'
    open(cfgp, "w", encoding="utf-8", errors="surrogateescape").write(t)
    return True


def write_refs(gitdir, refs, packed=False):
    if packed:
        lines = []
        for name in sorted(refs):
            lines.append("%s %s\n" % (refs[name].oid, name))
        with open(os.path.join(gitdir, "packed-refs"), "w", encoding="utf-8") as f:
            f.write("".join(lines))
        return
    for name, o in refs.items():
        p = os.path.join(gitdir, *name.split("/"))
        os.makedirs(os.path.dirname(p), exist_ok=True)
        with open(p, "w") as f:
            f.write(o.oid + "\n")


def refs_compatible(names):
    """True iff no name is a directory-prefix of another (D/F conflict)."""
    s = set(names)
    for n in s:
        parts = n.split("/")
        for i in range(1, len(parts)):
            if "/".join(parts[:i]) in s:
                return False
    return True


def selfcheck(gitdir, objs, sample_fsck=False):
    """Generator self-check against git: ids, types and sizes agree.
    Returns None if fine, else a message (=> inconclusive, never a violation)."""
    if not objs:
        return None
    inp = "".join(o + "\n" for o in objs).encode()
    p = rgit(gitdir, "cat-file", "--batch-check", input=inp, check=False)
    if p.returncode != 0:
        return "cat-file failed: %r" % p.stderr[:200]
    lines = p.stdout.decode().splitlines()
    if len(lines) != len(objs):
        return "cat-file line count"
    for line, (oid, o) in zip(lines, objs.items()):
        w = line.split(" ")
        if len(w) != 3 or w[0] != oid or w[1] != o.kind or int(w[2]) != o.size:
            return "mismatch: git says %r, model %s %s %d" % (line, oid, o.kind, o.size)
    if sample_fsck:
        p = rgit(gitdir, "fsck", "--no-dangling", "--no-progress", check=False)
        if p.returncode != 0:
            return "fsck: %r" % (p.stderr[:300] + p.stdout[:300])
    return None


# ---------------------------------------------------------------------------
# name profiles

def name_plain(rng, n=None):
    n = n or rng.randint(1, 12)
    return "".join(rng.choice("abcdefghijklmnopqrstuvwxyz0123456789_") for _ in range(n)).encode()


def name_hostile(rng, profile=None):
    """A tree-entry name (bytes, non-empty, no NUL, no '/')."""
    profile = profile or rng.choice(["plain", "spaces", "quotes", "ctrl", "nonutf8", "long",
                                     "revsyntax", "utf8", "percent", "escapes"])
    if profile == "plain":
        return name_plain(rng)
    if profile == "spaces":
        return b" ".join(name_plain(rng, rng.randint(1, 4)) for _ in range(rng.randint(2, 4)))
    if profile == "quotes":
        return rng.choice([b'"', b"'", b"\\", b'a"b', b"it's", b"back\\slash", b'"q"', b"\\n"]) \
            + name_plain(rng, 3)
    if profile == "ctrl":
        return name_plain(rng, 2) + rng.choice([b"\t", b"\x01", b"\x1b[31m", b"\r", b"\x7f"]) \
            + name_plain(rng, 2)
    if profile == "percent":
        return name_plain(rng, 2) + rng.choice([b"100%", b"%", b"rate-5%\"q\"", b"50%\\off", b"%s%d%v", b"%!", b"%%", b"%[1]d", b"%n",
                                                b"%\ttab", b"x%"]) + rng.choice([b"", b"", name_plain(rng, 1)])
    if profile == "escapes":
        # text that looks like an escape sequence of some output format, and the characters those escapes stand for
        return name_plain(rng, 2) + rng.choice([b"\\u0026", b"R\\u0026D", b"\\u003c", b"a\\u003eb", b"\\u2028", b"&", b"<b>", b"a&amp;b", b"\\x41",
                                                b"\\\\u0026", b"&#38;", b"\\t", b"\\\"", b"\\/", b"${HOME}", b"$(x)", b"`x`", b"\\u00e9", b"\\U0001F600"]) \
            + rng.choice([b"", name_plain(rng, 1)])
    if profile == "lf":
        return name_plain(rng, 2) + b"\n" + rng.choice([name_plain(rng, 2), name_plain(rng, 2), b"[1]  injected" + name_plain(rng, 1),
                                                        b"[9]  " + name_plain(rng, 2), b"| x [3] |"])
    if profile == "nonutf8":
        return name_plain(rng, 2) + rng.choice([b"\xff", b"\xc3\x28", b"\xe2\x82", b"\x80\x81"]) \
            + name_plain(rng, 2)
    if profile == "utf8":
        return name_plain(rng, 2) + rng.choice(["é", "日本", "∞", "ß", "😀"]).encode() + name_plain(rng, 1)
    if profile == "long":
        return name_plain(rng, rng.choice([100, 255, 1000, 4000]))
    if profile == "revsyntax":
        return rng.choice([b"-x", b"a:b", b"^{tree}", b"x^{", b"@{1}", b"a..b", b"~1", b":", b"*", b"?[a]",
                           b"(m)", b"[1]", b"#", b"%", b"&|;"]) + name_plain(rng, 2)
    raise ValueError(profile)


def uniq_names(rng, k, gen):
    seen = set()
    out = []
    tries = 0
    while len(out) < k and tries < 50 * k + 50:
        tries += 1
        n = gen(rng)
        if n in seen or not n or b"/" in n or b"\0" in n or n in (b".", b"..", b".git"):
            continue
        seen.add(n)
        out.append(n)
    return out


# ---------------------------------------------------------------------------
# random model generators

class Pool:
    """Pool of objects for building random graphs with sharing."""

    def __init__(self, rng, name_gen=None):
        self.rng = rng
        self.blobs = []
        self.trees = []
        self.commits = []
        self.tags = []
        self.name_gen = name_gen or (lambda r: name_plain(r))
        self.ctr = 0

    def new_blob(self, size=None):
        self.ctr += 1
        rng = self.rng
        if size is None:
            size = rng.choice([0, 1, 2, 5, 10, 50, 100, 1000, rng.randint(0, 3000)])
        data = (b"%d:" % self.ctr + bytes(rng.getrandbits(8) for _ in range(min(size, 16))))
        data = (data * (size // max(1, len(data)) + 1))[:size]
        b = Blob(data)
        self.blobs.append(b)
        return b

    def blob(self):
        if self.blobs and self.rng.random() < 0.5:
            return self.rng.choice(self.blobs)
        return self.new_blob()

    def new_tree(self, depth=0, max_depth=4, max_entries=6, p_sub=0.35, allow_empty=True):
        rng = self.rng
        k = rng.randint(0 if allow_empty else 1, max_entries)
        names = uniq_names(rng, k, self.name_gen)
        ents = []
        for n in names:
            r = rng.random()
            if r < p_sub and depth < max_depth:
                if self.trees and rng.random() < 0.4:
                    sub = rng.choice(self.trees)
                else:
                    sub = self.new_tree(depth + 1, max_depth, max_entries, p_sub)
                ents.append(Entry(TREE, n, sub))
            elif r < p_sub + 0.08:
                ents.append(Entry(LINK, n, self.blob()))
            elif r < p_sub + 0.14:
                ents.append(Entry(GITLINK, n, "%040x" % rng.getrandbits(160)))
            elif r < p_sub + 0.20:
                ents.append(Entry(EXEC, n, self.blob()))
            elif r < p_sub + 0.22:
                ents.append(Entry(FILE, n, self.blob(), mode=b"100664"))
            else:
                ents.append(Entry(FILE, n, self.blob()))
        t = Tree(ents)
        self.trees.append(t)
        return t

    def tree(self, **kw):
        if self.trees and self.rng.random() < 0.3:
            return self.rng.choice(self.trees)
        return self.new_tree(**kw)


def ts_profile(rng, profile, i, n):
    base = 1112911993
    if profile == "inc":
        return base + i * 60
    if profile == "dec":
        return base + (n - i) * 60
    if profile == "equal":
        return base
    if profile == "random":
        return rng.randint(1, 2 ** 31 - 1)
    if profile == "zero":
        return 0
    if profile == "big":
        return rng.choice([2 ** 31 - 1, 2 ** 31, 2 ** 32 + 5, 2 ** 40])
    if profile == "mixed":
        return rng.choice([base, base + i, base - i, 0, rng.randint(1, 2 ** 31 - 1)])
    raise ValueError(profile)


TS_PROFILES = ["inc", "dec", "equal", "random", "zero", "mixed", "big"]


def hostile_commit_extras(rng, pool):
    """Optional extra headers / messages that imitate headers."""
    extra = []
    fake = "%040x" % rng.getrandbits(160)
    r = rng.random()
    if r < 0.15:
        extra.append(b"encoding ISO-8859-1\n")
    if rng.random() < 0.2:
        extra.append(b"gpgsig -----BEGIN PGP SIGNATURE-----\n \n tree " + fake.encode() +
                     b"\n parent " + fake.encode() + b"\n -----END PGP SIGNATURE-----\n")
    if rng.random() < 0.15:
        extra.append(b"mergetag object " + fake.encode() + b"\n type commit\n tag v1\n tagger X <x@y> 1 +0000\n \n parent "
                     + fake.encode() + b"\n")
    if rng.random() < 0.08:
        return extra, b"big message " + b"m" * rng.choice([66000, 70000, 140000, 300000]) + b"\n"
    msgs = [b"msg\n", b"", None, b"parent " + fake.encode() + b"\n", b"tree " + fake.encode() + b"\n\nparent "
            + fake.encode() + b"\n", b"x" * rng.randint(0, 2000) + b"\n", b"no trailing newline",
            b"\n\n\ntree " + fake.encode() + b"\n"]
    return extra, rng.choice(msgs)


def gen_dag(rng, pool, n, shape=None, ts=None, hostile=False):
    """n commits; returns list in creation (parents-first) order."""
    shape = shape or rng.choice(["linear", "random", "diamond", "octopus", "multiroot", "crisscross"])
    ts = ts or rng.choice(TS_PROFILES)
    commits = []
    for i in range(n):
        if i == 0:
            parents = []
        elif shape == "linear":
            parents = [commits[-1]]
        elif shape == "random":
            k = rng.choice([0, 1, 1, 1, 2, 2, 3])
            parents = rng.sample(commits, min(k, len(commits)))
        elif shape == "diamond":
            if i % 3 == 0 and i >= 2:
                parents = [commits[-1], commits[-2]]
            elif i % 3 == 2 and i >= 2:
                parents = [commits[-2]]
            else:
                parents = [commits[-1]]
        elif shape == "octopus":
            if i == n - 1:
                parents = rng.sample(commits, min(len(commits), rng.choice([2, 12, 31, 64, 70, 130, 300, 400])))
            elif rng.random() < 0.15:
                parents = rng.sample(commits, min(len(commits), rng.choice([2, 3, 5, 8, 12, 31, 64])))
            else:
                parents = [rng.choice(commits)]
        elif shape == "multiroot":
            parents = [] if rng.random() < 0.25 else rng.sample(commits, min(len(commits), rng.randint(1, 2)))
        elif shape == "crisscross":
            if i >= 2 and i % 2 == 0:
                parents = [commits[-1], commits[-2]]
            elif i >= 3:
                parents = [commits[-2], commits[-3]]
            else:
                parents = [commits[-1]]
        tree = pool.tree()
        extra, msg = ([], b"c%d\n" % i)
        if hostile:
            extra, msg = hostile_commit_extras(rng, pool)
            if msg is not None:
                msg = b"c%d " % i + msg
            elif extra:
                pass
        c = Commit(tree, parents, cts=ts_profile(rng, ts, i, n), ats=ts_profile(rng, ts, i, n), extra=extra,
                   msg=msg)
        commits.append(c)
    pool.commits.extend(commits)
    return commits


def gen_tags(rng, pool, targets, n_chains=2, max_depth=5):
    tags = []
    for c in range(n_chains):
        t = rng.choice(targets)
        depth = rng.randint(1, max_depth)
        for d in range(depth):
            extra = []
            msg = rng.choice([b"m\n", None, b"", b"object " + b"0" * 40 + b"\ntype blob\n",
                              b"-----BEGIN PGP SIGNATURE-----\nabc\n-----END PGP SIGNATURE-----\n"])
            t = Tag(t, name=b"chain%d-%d" % (c, d), msg=msg, ts=rng.randint(1, 2 ** 31 - 1), extra=extra)
            tags.append(t)
    pool.tags.extend(tags)
    return tags


def random_model(rng, size="small", hostile_names=False, hostile_commits=True, noise=True):
    """A general-purpose random repository model."""
    if hostile_names:
        prof = rng.choice([None, "spaces", "quotes", "ctrl", "nonutf8", "revsyntax", "utf8"])
        pool = Pool(rng, (lambda r: name_hostile(r, prof)) if rng.random() < 0.7 else
                    (lambda r: name_hostile(r) if r.random() < 0.5 else name_plain(r)))
    else:
        pool = Pool(rng)
    m = Model()
    ncommits = {"tiny": rng.randint(0, 3), "small": rng.randint(1, 12), "medium": rng.randint(5, 60)}[size]
    commits = gen_dag(rng, pool, ncommits, hostile=hostile_commits) if ncommits else []
    # refs
    refnames = ["refs/heads/main", "refs/heads/dev", "refs/heads/feature/x", "refs/tags/v1", "refs/tags/v2",
                "refs/remotes/origin/main", "refs/remotes/origin/dev", "refs/notes/commits", "refs/stash",
                "refs/pull/1/head", "refs/changes/34/1234/1", "refs/foo/bar", "refs/heads/zz", "refs/tags/rel/1.0",
                # legal names with characters that Unicode (but not git) counts as white space
                "refs/heads/wide\u3000space", "refs/tags/nb\u00a0sp/x"]
    rng.shuffle(refnames)
    k = rng.randint(1, min(8, len(refnames)))
    targets_extra = []
    if rng.random() < 0.5:
        targets_extra.append(pool.tree())
    if rng.random() < 0.4:
        targets_extra.append(pool.new_blob())
    tagtargets = commits + targets_extra or [pool.new_blob()]
    tags = gen_tags(rng, pool, tagtargets, n_chains=rng.randint(0, 3), max_depth=rng.randint(1, 5)) \
        if rng.random() < 0.7 else []
    cands = commits + tags + targets_extra
    if not cands:
        cands = [pool.new_blob()]
    for name in refnames[:k]:
        if name.startswith("refs/tags/") and tags and rng.random() < 0.7:
            m.refs[name] = rng.choice(tags)
        elif name.startswith("refs/heads/") and commits:
            m.refs[name] = rng.choice(commits)
        else:
            m.refs[name] = rng.choice(cands)
    if noise:
        # unreachable objects of all kinds
        npool = Pool(rng)
        npool.ctr = 10 ** 6
        nt = npool.new_tree(max_depth=2)
        nc = Commit(nt, [rng.choice(commits)] if commits and rng.random() < 0.5 else [], msg=b"noise\n",
                    cts=rng.randint(1, 2 ** 31 - 1))
        m.noise = [nc, Tag(nc, name=b"noisetag"), npool.new_blob(777)]
        if rng.random() < 0.3:
            m.head = Commit(nt, [nc], msg=b"detached head only\n")
    m.pool = pool
    m.commits = commits
    m.tags = tags
    return m


def bomb(depth, breadth, blob, ndirs_name=b"d", nfiles_name=b"f"):
    """A git bomb: `depth` levels, each tree has `breadth` entries all pointing at
    the same subtree (blobs at the bottom)."""
    t = Tree([Entry(FILE, nfiles_name + b"%d" % i, blob) for i in range(breadth)])
    for _ in range(depth - 1):
        t = Tree([Entry(TREE, ndirs_name + b"%d" % i, t) for i in range(breadth)])
    return t
