"""C09 Numeric results are independent of enumeration order and storage layout."""
import base64
import json
import os
import random
import shutil
import subprocess

from .. import gen as G
from .. import oracle as O
from .. import parse_out as P
from .. import run as R

LEVEL = "exploration"


def small_model(rng, maxtrees=7, maxtags=6, maxcommits=6, ts_profile=None):
    """A model small enough for exhaustive permutation, but with sharing, nesting, tag chains, merges."""
    pool = G.Pool(rng)
    m = G.Model()
    blobs = [pool.new_blob(rng.choice([0, 1, 7, 100, 3000])) for _ in range(rng.randint(1, 4))]
    trees = []
    ntrees = rng.randint(2, maxtrees)
    for i in range(ntrees):
        ents = []
        names = G.uniq_names(rng, rng.randint(0, 5), lambda r: G.name_plain(r, r.randint(1, 6)))
        for n in names:
            r = rng.random()
            if trees and r < 0.5:
                ents.append(G.Entry(G.TREE, n, rng.choice(trees)))
            elif r < 0.6:
                ents.append(G.Entry(G.LINK, n, rng.choice(blobs)))
            elif r < 0.7:
                ents.append(G.Entry(G.GITLINK, n, "%040x" % rng.getrandbits(160)))
            else:
                ents.append(G.Entry(G.FILE, n, rng.choice(blobs)))
        t = G.Tree(ents)
        if t.oid not in [x.oid for x in trees]:
            trees.append(t)
    ncommits = rng.randint(1, maxcommits)
    commits = []
    for i in range(ncommits):
        k = rng.choice([0, 1, 1, 2, 3]) if commits else 0
        parents = rng.sample(commits, min(k, len(commits)))
        ts = 1500000000 + rng.randint(0, 400000000)     # always drawn, so that all variants consume the PRNG alike
        if ts_profile is not None:
            ts = ts_profile(i)
        commits.append(G.Commit(rng.choice(trees), parents, cts=ts, ats=ts, msg=b"c%d\n" % i))
    tags = []
    ntags = rng.randint(0, maxtags)
    for i in range(ntags):
        target = rng.choice(commits + trees[:1] + blobs[:1] + tags + tags)
        tags.append(G.Tag(target, name=b"t%d" % i, ts=1500000000 + i))
    m.commits, m.tags, m.trees, m.blobs = commits, tags, trees, blobs
    names = ["refs/heads/a", "refs/heads/b", "refs/heads/c", "refs/tags/t1", "refs/tags/t2", "refs/tags/t3", "refs/x/y", "refs/remotes/o/m"]
    rng.shuffle(names)
    targets = [commits[-1]] + rng.sample(commits + tags + trees[:1], min(3, len(commits + tags + trees[:1])))
    if tags:
        targets.append(tags[-1])
    for n, t in zip(names, targets):
        m.refs[n] = t
    return m


def to_gmodel(m):
    ex = O.compute(list(m.refs.values()))
    R_ = ex.reach
    blobs = [{"oid": o.oid, "size": o.size} for o in R_.values() if o.kind == "blob"]
    trees = [{"oid": o.oid, "data": base64.b64encode(o.body()).decode()} for o in R_.values() if o.kind == "tree"]
    commits_order = O.topo_children_first({k: o for k, o in R_.items() if o.kind == "commit"}, lambda c: c.parents)
    idx = {c.oid: i for i, c in enumerate(commits_order)}
    commits = [{"oid": c.oid, "data": base64.b64encode(c.body()).decode(), "parents": [idx[p.oid] for p in c.parents]}
               for c in commits_order]
    tags = [{"oid": o.oid, "data": base64.b64encode(o.body()).decode()} for o in R_.values() if o.kind == "tag"]
    refs = [{"name": n, "oid": o.oid, "type": o.kind, "groups": []} for n, o in sorted(m.refs.items())]
    return {"blobs": blobs, "trees": trees, "commits": commits, "tags": tags, "refs": refs}, ex


def api_level(chk, b, tier):
    rng = random.Random("C09|%d" % R.SEED)
    n = 60 if tier == "quick" else 2000
    limit = 720 if tier == "quick" else 5040
    cases = []
    exps = []
    for i in range(n):
        big = (i % 6 == 5)
        m = small_model(rng, maxtrees=(6 if tier == "quick" else 7) if not big else 30, maxtags=(5 if tier == "quick" else 6) if not big else 15,
                        maxcommits=6 if not big else 25)
        gm, ex = to_gmodel(m)
        cases.append({"id": i, "model": gm, "names": rng.choice(["full", "none", "hash"]), "perm_limit": limit, "random": 30, "seed": i})
        exps.append(ex)
    for race in (False, True):
        drv = b.apidrv(race=race)
        sub = cases if not race else cases[: max(6, n // 6)]
        if race:
            for c in sub:
                c = dict(c)
        logdir = os.path.join(b.dir, "racelogs-c09")
        os.makedirs(logdir, exist_ok=True)
        chunks = [sub[i::16] for i in range(16)]
        results = R.pmap(_chunk, [(drv, ch, logdir if race else None, 120 if race else limit) for ch in chunks], chk=chk)
        for obs in results:
            for o in obs:
                ex = exps[o["id"]]
                if "panic" in o or o.get("canonical_panic"):
                    chk.violation("C09/api/panic-in-canonical-order", {"panic": (o.get("panic") or o.get("canonical_panic"))[:600]})
                    continue
                tried = o.get("tried") or {}
                ntried = sum(tried.values())
                chk.count(ntried + 1)
                if not race:
                    if ntried >= 2:
                        chk.nontrivial(("model", o["id"]))
                    for k, v in tried.items():
                        chk.bump("api_orders_tried_" + k, v)
                    for k, v in (o.get("exhaustive") or {}).items():
                        if v:
                            chk.bump("api_models_with_exhaustive_" + k + "_orders")
                    canon = json.loads(o["canonical"])
                    bad = [(k, ex.sat(k), canon.get(k)) for k in O.CAPS if k != "reference_count" and canon.get(k) != ex.sat(k)]
                    if bad:
                        chk.violation("C09/api/canonical-order-differs-from-reference-model", {"diffs": bad[:5]})
                else:
                    chk.bump("api_orders_tried_under_race_detector", ntried)
                for mm in o.get("mismatches") or []:
                    kind = "panic" if mm.get("panic") else "numbers-differ"
                    det = {"which": mm["which"], "order": (mm.get("order") or [])[:40], "panic": (mm.get("panic") or "")[:400]}
                    if not mm.get("panic"):
                        det["diff"] = _jdiff(o["canonical"], mm.get("got"))
                    chk.violation("C09/api/%s/%s-order" % (kind, mm["which"]), det)
        if race:
            nr = 0
            for fn in os.listdir(logdir):
                txt = open(os.path.join(logdir, fn), "rb").read()
                if b"DATA RACE" in txt:
                    nr += txt.count(b"WARNING: DATA RACE")
                    chk.violation("C09/api/data-race", {"report": txt[:2000]})
            chk.cov["api_race_reports"] = nr
    chk.sample({"api_model": {"trees": len(cases[0]["model"]["trees"]), "commits": len(cases[0]["model"]["commits"]),
                              "tags": len(cases[0]["model"]["tags"]), "blobs": len(cases[0]["model"]["blobs"])}})


def _chunk(arg):
    drv, ch, logdir, limit = arg
    if not ch:
        return []
    ch = [dict(c, perm_limit=limit) for c in ch]
    env = {"GORACE": "halt_on_error=0 log_path=%s/race" % logdir} if logdir else None
    obs, rc, err = R.drv(drv, "graph", ch, env=env, timeout=3000)
    return obs


def _jdiff(a, b):
    try:
        ja, jb = json.loads(a), json.loads(b)
        return {k: [ja.get(k), jb.get(k)] for k in ja if ja.get(k) != jb.get(k)}
    except Exception:
        return {"raw": [str(a)[:200], str(b)[:200]]}


def numeric(js):
    return {k: v for k, v in js.items() if isinstance(v, (int, dict)) or v is None}


def cli_case(arg):
    seed, idx, sz, shimdir, scratch, nperm = arg
    rng = random.Random("C09c|%d|%d" % (seed, idx))
    d = os.path.join(scratch, "o%d" % idx)
    os.makedirs(d)
    out = {"viol": [], "evals": 0, "variants": 0, "listings": set(), "sample": None, "inconc": []}
    try:
        mseed = rng.getrandbits(32)

        def build(ts_profile=None, name_perm=None):
            r2 = random.Random(mseed)
            m = small_model(r2, maxtrees=12, maxtags=8, maxcommits=10, ts_profile=ts_profile)
            if mseed % 3 == 1:
                # a directory with hundreds of subdirectory entries (a few distinct subtrees under many names), which a listing
                # may deliver before or after those subtrees
                r3 = random.Random(mseed + 1)
                subs = [G.Tree([G.Entry(G.FILE, b"f%d" % k, G.Blob(b"s%d\n" % k))] + ([G.Entry(G.TREE, b"e", G.Tree([]))] if k == 1 else []))
                        for k in range(r3.choice([1, 2, 3]))]
                wide = G.Tree([G.Entry(G.TREE, b"w%04d" % j, subs[j % len(subs)]) for j in range(r3.choice([255, 256, 257, 300, 511, 512, 700]))])
                m.refs["refs/heads/wide"] = G.Commit(G.Tree([G.Entry(G.TREE, b"top", wide), G.Entry(G.TREE, b"again", subs[0])]), [],
                                                     cts=1500000000 + (ts_profile(0) - ts_profile(0) if ts_profile else 0), msg=b"wide\n")
            if name_perm is not None:
                names = sorted(m.refs)
                objs = [m.refs[n] for n in names]
                pr = random.Random(name_perm)
                pr.shuffle(objs)
                # keep kinds compatible with selections: plain re-assignment of names to the same set of objects
                m.refs = dict(zip(names, objs))
            return m

        m0 = build()
        ex = O.compute(list(m0.refs.values()))
        g0 = G.write_model(m0, os.path.join(d, "base"))
        argv = ["--json", "--no-progress", "--names=none"]
        r = R.sizer(sz, g0, argv, tmpdir=d)
        out["evals"] += 1
        if r.rc != 0:
            out["viol"].append(("run-failed/base", {"stderr": r.err[-300:]}))
            return out
        js0, _ = P.parse_json(r.out)
        base = numeric(js0)
        bad = O.compare_numeric(ex, js0, [k for k in O.CAPS if k != "reference_count"])
        if bad:
            out["viol"].append(("base-differs-from-reference-model", {"diffs": bad[:4]}))

        def compare(name, gitdir, a=argv, plan=None, expect=base, cwd=None):
            r = R.sizer(sz, gitdir, a, shimdir=shimdir, plan=plan, tmpdir=d)
            out["evals"] += 1
            out["variants"] += 1
            if r.timed_out or r.rc != 0:
                kind = "panic" if b"panic" in r.err else "error"
                out["viol"].append(("run-failed/%s/%s" % (name.split(":")[0], kind), {"variant": name, "rc": r.rc, "stderr": r.err[-500:]}))
                return
            js, _ = P.parse_json(r.out)
            if js is None or numeric(js) != expect:
                diff = {k: [expect.get(k), (js or {}).get(k)] for k in expect if expect.get(k) != (js or {}).get(k)}
                out["viol"].append(("numbers-differ/" + name.split(":")[0], {"variant": name, "diff": diff}))

        # (e) legal listing orders delivered by the permuting shim
        for k in range(nperm):
            pdir = os.path.join(d, "perm%d" % k)
            plan = R.make_plan(pdir, [{"sig": "rev-list", "ord": -1, "mode": "permute", "seed": rng.getrandbits(31)}])
            compare("permuted-listing:%d" % k, g0, plan=plan)
            for ev in R.read_events(pdir):
                if ev.get("lines"):
                    out["listings"].add(tuple(ev["lines"][:60]))
            shutil.rmtree(pdir, ignore_errors=True)
        # (d) storage layouts
        env = G.git_env()
        lay = os.path.join(d, "layouts")
        shutil.copytree(g0, lay)
        subprocess.run([G.REAL_GIT, "--git-dir", lay, "pack-refs", "--all"], env=env, stdout=-1, stderr=-1)
        compare("layout:packed-refs", lay)
        # several packs: pack half of the objects, then the rest incrementally
        objs = sorted(m0.all_objects())
        half = objs[: len(objs) // 2]
        p = subprocess.run([G.REAL_GIT, "--git-dir", lay, "pack-objects", "-q", os.path.join(lay, "objects", "pack", "pack")],
                           input=("\n".join(half) + "\n").encode(), env=env, stdout=-1, stderr=-1)
        if p.returncode == 0:
            subprocess.run([G.REAL_GIT, "--git-dir", lay, "prune-packed", "-q"], env=env, stdout=-1, stderr=-1)
            compare("layout:one-pack-plus-loose", lay)
        subprocess.run([G.REAL_GIT, "--git-dir", lay, "repack", "-dq"], env=env, stdout=-1, stderr=-1)
        compare("layout:two-packs", lay)
        subprocess.run([G.REAL_GIT, "--git-dir", lay, "repack", "-adq"], env=env, stdout=-1, stderr=-1)
        compare("layout:single-pack", lay)
        subprocess.run([G.REAL_GIT, "--git-dir", lay, "gc", "-q"], env=env, stdout=-1, stderr=-1)
        compare("layout:after-gc", lay)
        # what a partial clone whose filter omitted nothing looks like: the pack is a promisor pack, a promisor remote is configured
        if G.make_promisor(lay):
            compare("layout:promisor-pack", lay)
            # ... and objects created locally afterwards (loose, not promised by anybody) next to it
            lay2 = os.path.join(d, "lay-promisor-mixed")
            shutil.copytree(g0, lay2)
            subprocess.run([G.REAL_GIT, "--git-dir", lay2, "repack", "-dq"], env=env, stdout=-1, stderr=-1)
            for dp, dns, fns in os.walk(os.path.join(lay, "objects", "pack")):
                pass
            half = [o for o in objs[1::2]]
            p = subprocess.run([G.REAL_GIT, "--git-dir", lay2, "pack-objects", "-q", os.path.join(lay2, "objects", "pack", "pack")],
                               input=("\n".join(half) + "\n").encode(), env=env, stdout=subprocess.PIPE, stderr=subprocess.PIPE)
            if p.returncode == 0 and p.stdout.strip():
                open(os.path.join(lay2, "objects", "pack", "pack-%s.promisor" % p.stdout.decode().strip()), "w").close()
                cfgp = os.path.join(lay2, "config")
                t = open(cfgp).read().replace("repositoryformatversion = 0", "repositoryformatversion = 1")
                open(cfgp, "w").write(t + '[remote "origin"]\n\turl = /nonexistent/x.git\n\tpromisor = true\n\tpartialclonefilter = blob:none\n'
                                      '[extensions]\n\tpartialClone = origin\n')
                compare("layout:promisor-pack-plus-local-objects", lay2)
        # alternates: half of the objects live in another object directory
        alt = os.path.join(d, "alt")
        shutil.copytree(g0, alt)
        altstore = os.path.join(d, "altstore", "objects")
        os.makedirs(altstore)
        moved = 0
        for oid in objs[::2]:
            src = os.path.join(alt, "objects", oid[:2], oid[2:])
            if os.path.exists(src):
                os.makedirs(os.path.join(altstore, oid[:2]), exist_ok=True)
                os.rename(src, os.path.join(altstore, oid[:2], oid[2:]))
                moved += 1
        with open(os.path.join(alt, "objects", "info", "alternates"), "w") as f:
            f.write(altstore + "\n")
        if moved:
            compare("layout:alternates", alt)
        # (b) root orders: explicit ROOTs in several orders (+ duplicates)
        roots = [o.oid for o in m0.refs.values()]
        exr = O.compute(list(m0.refs.values()))
        rb = R.sizer(sz, g0, argv + roots, tmpdir=d)
        out["evals"] += 1
        if rb.rc == 0:
            jr, _ = P.parse_json(rb.out)
            baser = numeric(jr)
            for k in range(4):
                rr = list(roots)
                rng.shuffle(rr)
                if k == 3:
                    rr = rr + rr[:2]
                compare("root-order:%d" % k, g0, a=argv + rr, expect=baser)
        if idx % 4 == 2:
            # many ROOT arguments, each the only way to its own commit, whose rev-parse children are held back and then answer
            # together: no root may get lost, whatever the schedule
            mr = G.Model()
            uniq = [G.Commit(G.Tree([G.Entry(G.FILE, b"u%d" % j, G.Blob(b"unique %d\n" % j))]), [], cts=1400000000 + j, msg=b"u%d\n" % j)
                    for j in range(64)]
            mr.noise = uniq
            mr.refs["refs/heads/keep"] = uniq[0]
            gm = G.write_model(mr, os.path.join(d, "manyroots"))
            many = [c.oid for c in uniq]
            for k in range(4):
                rng.shuffle(many)
                pdir = os.path.join(d, "rootburst%d" % k)
                plan = R.make_plan(pdir, [{"sig": "rev-parse --verify", "ord": -1, "mode": "delay", "pre_ms": 25, "max_ms": 40}])
                rm = R.sizer(sz, gm, argv + many, shimdir=shimdir, plan=plan, tmpdir=d, env={"GOMAXPROCS": ["16", "8", "4", "2"][k]}, timeout=120)
                out["evals"] += 1
                shutil.rmtree(pdir, ignore_errors=True)
                if rm.rc != 0 or rm.timed_out:
                    out["viol"].append(("run-failed/many-roots", {"nroots": len(many), "rc": rm.rc, "stderr": rm.err[-300:].decode("utf-8", "replace")}))
                    continue
                jm, _ = P.parse_json(rm.out)
                got = [(jm or {}).get(k_) for k_ in ("unique_commit_count", "unique_tree_count", "unique_blob_count")]
                if got != [64, 64, 64]:
                    out["viol"].append(("numbers-differ/many-roots-resolved-at-the-same-time", {"nroots": 64, "commits_trees_blobs": got}))
        # a child that dies in the tail of its output (where the tag objects are): every root order must end in an error or
        # in the same numbers, never in numbers that depend on the order
        total = sum(len("%s %s %d\n" % (o.oid, o.kind, o.size)) + o.size + 1 for o in ex.reach.values() if o.kind != "blob")
        if rb.rc == 0:
            for k in range(4):
                rr = list(roots)
                rng.shuffle(rr)
                pdir = os.path.join(d, "tailfault%d" % k)
                plan = R.make_plan(pdir, [{"sig": "cat-file --batch", "ord": 0, "mode": "fault", "term": rng.choice(["exit:128", "sig:KILL"]),
                                           "after_bytes": max(0, total - rng.randint(1, 300))}])
                rf = R.sizer(sz, g0, argv + rr, shimdir=shimdir, plan=plan, tmpdir=d)
                out["evals"] += 1
                shutil.rmtree(pdir, ignore_errors=True)
                if rf.rc == 0 and not rf.timed_out:
                    jf, _ = P.parse_json(rf.out)
                    if jf is None or numeric(jf) != baser:
                        out["viol"].append(("numbers-differ/root-order-with-dying-child", {"roots": rr[:4], "diff": {
                            k_: [baser.get(k_), (jf or {}).get(k_)] for k_ in baser if baser.get(k_) != (jf or {}).get(k_)}}))
        if idx % 6 == 0 and shimdir:
            # each git child of the plain run failing at its start, inside and at the end of its output: a run that still
            # reports success must report the same numbers (a partial list of references or objects depends on the order)
            R.fault_sweep(R.Collector(out, strip_prefix="C09/cli/"), "C09/cli", sz, g0, argv, shimdir, d)
        # ignored references with the same values as walked ones, under names that sort before and after them
        mi = build()
        heads = {n: o for n, o in mi.refs.items() if n.startswith("refs/heads/")}
        if heads:
            ri = R.sizer(sz, g0, argv + ["--branches"], tmpdir=d)
            out["evals"] += 1
            ji, _ = P.parse_json(ri.out) if ri.rc == 0 else (None, None)
            for k, pre in enumerate(["refs/aaa-archive/", "refs/zzz-archive/", "refs/changes/"]):
                mk = build()
                for n, o in heads.items():
                    mk.refs[pre + n.split("/", 2)[2]] = mk.refs[n]
                gk = G.write_model(mk, os.path.join(d, "ign%d" % k))
                if ji is not None:
                    expect = dict(numeric(ji))
                    rk = R.sizer(sz, gk, argv + ["--branches"], tmpdir=d)
                    out["evals"] += 1
                    out["variants"] += 1
                    jk, _ = P.parse_json(rk.out) if rk.rc == 0 else (None, None)
                    if jk is None:
                        out["viol"].append(("run-failed/ignored-duplicate-refs", {"stderr": rk.err[-300:]}))
                    else:
                        got = numeric(jk)
                        diff = {k_: [expect.get(k_), got.get(k_)] for k_ in expect
                                if k_ not in ("reference_count", "reference_groups") and expect.get(k_) != got.get(k_)}
                        if diff:
                            out["viol"].append(("numbers-differ/ignored-references-with-the-same-values", {"prefix": pre, "diff": diff}))
                shutil.rmtree(gk, ignore_errors=True)
        # (c) the same objects under permuted reference names
        for k in range(3):
            mk = build(name_perm=rng.getrandbits(30))
            gk = G.write_model(mk, os.path.join(d, "names%d" % k))
            compare("refname-permutation:%d" % k, gk)
            shutil.rmtree(gk, ignore_errors=True)
        # (a) other commit timestamps (same digit count => same sizes), incl. children older than their parents
        profs = [lambda i: 1900000000 - i * 1000, lambda i: 1500000000, lambda i: 1500000000 + ((i * 7919) % 13) * 100000,
                 lambda i: 2000000000 + i]
        for k, tp in enumerate(profs):
            mk = build(ts_profile=tp)
            gk = G.write_model(mk, os.path.join(d, "ts%d" % k))
            compare("timestamps:%d" % k, gk)
            shutil.rmtree(gk, ignore_errors=True)
        out["sample"] = {"variants": out["variants"], "reachable_objects": len(ex.reach),
                         "distinct_permuted_listings_delivered": len(out["listings"])}
    finally:
        shutil.rmtree(d, ignore_errors=True)
    out["listings"] = len(out["listings"])
    return out


def run(chk, b, tier):
    api_level(chk, b, tier)
    sz = b.sizer()
    shimdir = b.shimdir()
    scratch = b.scratchdir()
    n = 16 if tier == "quick" else 600
    nperm = 8 if tier == "quick" else 20
    res = R.pmap(cli_case, [(R.SEED, i, sz, shimdir, scratch, nperm) for i in range(n)], chk=chk)
    listings = 0
    for i, r in enumerate(res):
        chk.count(r["evals"])
        for clause, det in r["viol"]:
            chk.violation("C09/cli/" + clause, det)
        listings += r["listings"]
        chk.bump("cli_variants_compared", r["variants"])
        if r["variants"] >= 10:
            chk.nontrivial(("cli", i))
        if r["sample"]:
            chk.sample(r["sample"], limit=4)
    chk.cov["cli_models"] = n
    chk.cov["cli_distinct_permuted_listings_delivered_by_shim"] = listings
    if listings == 0:
        chk.inconc("the permuting shim delivered no listing")
    chk.cov["rule"] = ("API: small models fed through sizes.NewGraph / Register* in every permutation of the trees (<=7) and of the "
                       "tags (<=6), every topological order of the commits (parents first), random blob orders and joint shuffles, "
                       "also under the race detector; all numeric HistorySize fields must equal those of the canonical order, "
                       "which must equal the reference model. Only orders the program can meet are explored (blobs, then trees "
                       "in any order, then commits parents-first, then tags in any order). CLI: per model 8-20 legal listing "
                       "orders delivered by the permuting shim (distinct ones counted from its log), 5 storage layouts (packed "
                       "refs, pack+loose, two packs, single pack, after gc), shuffled ROOT orders with duplicates, permuted "
                       "reference names, 4 timestamp assignments incl. children older than parents. Non-trivial: models with >=2 "
                       "orders / >=10 variants.")
    chk.assumptions += ["feeding a tree before its blobs or a commit before its parent violates a documented precondition and is "
                        "not explored", "timestamps of equal digit count keep object sizes equal across the timestamp variants"]
