"""C06 Reference selection follows last-matching-rule semantics."""
import itertools
import os
import random
import shutil

from .. import gen as G
from .. import parse_out as P
from .. import run as R
from .. import select as S

LEVEL = "exploration"

REFS_A = [
    "refs/heads/main", "refs/heads/foo", "refs/heads/foobar", "refs/heads/foo-x/y", "refs/heads/feature/a",
    "refs/heads/feature/b", "refs/heads/a+b", "refs/heads/a(b)", "refs/heads/x|y", "refs/heads/v1$",
    "refs/headstrong/x", "refs/tags/v1", "refs/tags/v1.0", "refs/tags/refs/heads/x", "refs/tags/release/1",
    "refs/tags/foo", "refs/stash", "refs/stashed", "refs/changes/12/3412/1", "refs/changes/1/2/3",
    "refs/changes/34/x/1", "refs/changes/99/1/2/3", "refs/pull/1/head", "refs/pull/1/merge", "refs/pulls/x",
    "refs/notes/commits", "refs/notesy", "refs/remotes/origin/main", "refs/remotes/origin/foo",
    "refs/remotes/up/main", "refs/remote/x", "refs/foo", "refs/foobar", "refs/foo.bar", "refs/x/heads/main",
    "refs/heads/main2", "refs/Heads/main", "refs/tagsx", "refs/heads/fo",
    # legal names with characters that Unicode (but not git) counts as white space: the name ends where the line ends
    "refs/heads/foo\u3000bar", "refs/heads/feature\u00a0x/y", "refs/tags/v1\u2003beta", "refs/remotes/origin\u2028/x",
]
REFS_B = [
    "refs/stash/x", "refs/heads/foo/bar", "refs/heads/foo/baz/q", "refs/foo/bar", "refs/notes", "refs/tags/v1/x",
    "refs/heads/main/sub", "refs/remotes", "refs/changes/12/3412/1/x", "refs/pull", "refs/heads/fo/o",
    "refs/stash2", "refs/tags/release", "refs/heads/feature",
]
CONFIG = """
[refgroup "mygroup"]
\tinclude = refs/heads/foo
\tinclude = refs/tags
\texclude = refs/tags/release
[refgroup "mygroup.sub"]
\tincludeRegexp = refs/heads/foo.*
[refgroup "mygroup.sub.deep"]
\tinclude = refs/heads/foo/
[refgroup "union.a"]
\tinclude = refs/remotes/origin
[refgroup "union.b"]
\tincludeRegexp = refs/pull/\\\\d+/head
[refgroup "onlyexcl"]
\texclude = refs/heads
[refgroup "tags.releases"]
\tinclude = refs/tags/release
[refgroup "proj"]
\tinclude = refs/heads
\texclude = refs/heads/foo
[refgroup "proj.rel.v1"]
\tincludeRegexp = refs/(heads|tags)/(feature|release|foo).*
[refgroup "proj.rel.v2"]
\tinclude = refs/heads/main
[refgroup "deepunion.x.y.z"]
\tinclude = refs/remotes
"""
CONFIG_ENTRIES = [
    ("refgroup.mygroup.include", "refs/heads/foo"), ("refgroup.mygroup.include", "refs/tags"),
    ("refgroup.mygroup.exclude", "refs/tags/release"),
    ("refgroup.mygroup.sub.includeregexp", "refs/heads/foo.*"),
    ("refgroup.mygroup.sub.deep.include", "refs/heads/foo/"),
    ("refgroup.union.a.include", "refs/remotes/origin"),
    ("refgroup.union.b.includeregexp", "refs/pull/\\d+/head"),
    ("refgroup.onlyexcl.exclude", "refs/heads"),
    ("refgroup.tags.releases.include", "refs/tags/release"),
    ("refgroup.proj.include", "refs/heads"), ("refgroup.proj.exclude", "refs/heads/foo"),
    ("refgroup.proj.rel.v1.includeregexp", "refs/(heads|tags)/(feature|release|foo).*"),
    ("refgroup.proj.rel.v2.include", "refs/heads/main"),
    ("refgroup.deepunion.x.y.z.include", "refs/remotes"),
]

ALPHABET = [
    ["--branches"], ["--no-branches"], ["--tags"], ["--no-tags"], ["--remotes"], ["--no-notes"], ["--stash"],
    ["--no-stash"], ["--notes"], ["--branches=false"],
    ["--include", "refs/heads/foo"], ["--exclude", "refs/heads/foo"], ["--include=refs/heads/fo"],
    ["--exclude=refs/heads/foo/"], ["--exclude", "refs/foo"], ["--include", "refs/tags/v1"],
    ["--include", "/refs/heads/foo.*/"], ["--exclude", "/.*main/"], ["--include", "/refs/(heads|tags)/v?[a-z0-9.]+/"],
    ["--include", "/refs/heads/foo|refs/tags/v1/"], ["--exclude", "/refs/stash|refs/notes/commits|refs/foo/"],
    ["--include", "@mygroup"], ["--exclude", "@mygroup.sub"], ["--include=@union"], ["--exclude=@onlyexcl"],
    ["--include-regexp", "refs/heads/feature/[ab]"], ["--exclude-regexp", ".*/x"], ["--refgroup", "changes"],
    ["--include", "@pulls"], ["--exclude", "@tags.releases"], ["--include", "@mygroup.sub.deep"],
    ["--include", "refs/heads/a+b"], ["--exclude", "/refs/heads/a\\+b|refs/heads/x\\|y/"],
    ["--include", "@proj.rel.v1"], ["--exclude", "@proj.rel"], ["--include", "@deepunion.x"], ["--refgroup", "proj.rel.v2"],
    # patterns that match no reference at all are still options: they decide the default polarity when they come first
    ["--include", "//"], ["--exclude", "//"], ["--include-regexp="], ["--exclude-regexp", ""], ["--include", "refs/none/such"],
    ["--exclude", "/refs/nothing/.*/"],
]

_REGEX_ATOMS = ["refs", "heads", "tags", "foo", "main", "v1", "/", "/", ".", ".*", "[a-z]+", "\\d+", "(heads|tags)",
                "x?", "[^/]*", "bar", "o+", "f", "(a|b)", "remotes", "origin", "stash", "[a-z0-9.]*", "^", "$", "|"]


def gen_regex(rng):
    n = rng.randint(1, 6)
    return "".join(rng.choice(_REGEX_ATOMS) for _ in range(n))


def valid_shared(pattern):
    import re
    try:
        re.compile(pattern)
    except re.error:
        return False
    # avoid constructs whose meaning differs or which RE2 rejects
    if "(?" in pattern or "\\Z" in pattern:
        return False
    return True


def setup_repo(path, refs):
    blob = G.Blob(b"x\n")
    c = G.Commit(G.Tree([G.Entry(G.FILE, b"f", blob)]), [], msg=b"only\n")
    m = G.Model()
    m.config = CONFIG
    for r in refs:
        m.refs[r] = c
    gitdir = G.write_model(m, path, packed_refs=True)
    # self-check: git lists exactly these refs
    out = G.rgit(gitdir, "for-each-ref", "--format=%(refname)").stdout.decode().split("\n")[:-1]
    if sorted(out) != sorted(refs):
        raise R.Inconclusive("generator: for-each-ref disagrees: %r" % (set(out) ^ set(refs)))
    return gitdir


def run_seq(arg):
    binary, gitdir, refs, seq, root, tmp = arg
    argv = ["--json", "--no-progress", "--show-refs"]
    for o in seq:
        argv += o
    if root:
        argv.append(root)
    r = R.sizer(binary, gitdir, argv, tmpdir=tmp)
    try:
        rules = [S.parse_opt(o) for o in seq]
    except Exception as e:
        return ("model-error", argv, repr(e))
    forest = S.Forest(CONFIG_ENTRIES)
    want = {ref: S.selected(rules, 1 if root else 0, ref, forest) for ref in refs}
    if r.rc != 0 or r.timed_out:
        return ("fail", argv, {"rc": r.rc, "stderr": r.err[-800:]})
    _, marks, _ = P.parse_stderr(r.err)
    got = {n.decode(): plus for plus, n in marks}
    if set(got) != set(refs):
        return ("fail", argv, {"missing": sorted(set(refs) ^ set(got))[:5]})
    diff = sorted(ref for ref in refs if got[ref] != want[ref])
    if diff:
        # which rule kinds are involved (for the signature): the rule that decided in the model
        kinds = sorted({("regexp-alternation" if (r.kind == "regexp" and _top_alt(r.pattern)) else r.kind) for r in rules})
        return ("mismatch", argv, {"refs": diff[:6], "want": [want[x] for x in diff[:6]], "rule_kinds": kinds,
                                    "n_selected_want": sum(want.values())})
    nsel = sum(want.values())
    return ("ok", argv, nsel)


def _top_alt(p):
    depth = 0
    i = 0
    while i < len(p):
        ch = p[i]
        if ch == "\\":
            i += 2
            continue
        if ch == "[":
            j = p.find("]", i + 2)
            i = (j + 1) if j > 0 else len(p)
            continue
        if ch == "(":
            depth += 1
        elif ch == ")":
            depth -= 1
        elif ch == "|" and depth == 0:
            return True
        i += 1
    return False


def api_filter_cases(rng, n):
    """The match relation alone through git.PrefixFilter / git.RegexpFilter."""
    names = list(REFS_A + REFS_B)
    for _ in range(200):
        parts = [rng.choice(["refs", "heads", "tags", "foo", "foobar", "fo", "main", "v1", "x", "bar", "remotes",
                             "origin", "stash", "a+b", "notes", "1", "12", "3412"]) for _ in range(rng.randint(1, 5))]
        names.append("/".join(parts))
    cases = []
    # every cut point of every name +- '/'
    for nm in REFS_A + REFS_B:
        for cut in range(1, len(nm) + 1):
            p = nm[:cut]
            cases.append({"kind": "prefix", "pattern": p})
            if not p.endswith("/"):
                cases.append({"kind": "prefix", "pattern": p + "/"})
    seen = set()
    uniq = []
    for c in cases:
        k = (c["kind"], c["pattern"])
        if k not in seen:
            seen.add(k)
            uniq.append(c)
    cases = uniq
    rng.shuffle(cases)
    cases = cases[: max(200, n // 2)]
    tries = 0
    while len(cases) < n and tries < n * 5:
        tries += 1
        p = gen_regex(rng)
        if valid_shared(p):
            cases.append({"kind": "regexp", "pattern": p})
    return names, cases


def forest_case(arg):
    """Random refgroup forests (generator of C07) x option sequences that use @group: marks vs the membership model."""
    from .C07 import gen_forest, render_config, REFPOOL
    seed, idx, binary, scratch = arg
    rng = random.Random("C06f|%d|%d" % (seed, idx))
    d = os.path.join(scratch, "g%d" % idx)
    os.makedirs(d)
    out = []
    try:
        refs = [r for r in rng.sample(REFPOOL, rng.randint(6, len(REFPOOL))) if r != "refs/foo"]
        entries = gen_forest(rng, refs, deep=(idx % 4 == 3))
        blob = G.Blob(b"x\n")
        c = G.Commit(G.Tree([G.Entry(G.FILE, b"f", blob)]), [], msg=b"only\n")
        m = G.Model()
        m.config = render_config(entries)
        for r in refs:
            m.refs[r] = c
        gitdir = G.write_model(m, os.path.join(d, "repo"), packed_refs=True)
        p = G.rgit(gitdir, "config", "--list", "-z", check=False)
        got = [(k.decode(), v.decode()) for k, v in S.parse_config_z(p.stdout) if k.startswith(b"refgroup.") and v is not None]
        forest = S.Forest(got)
        if p.returncode != 0 or forest.undefined():
            return [("discard", None, None)]
        syms = [s_ for s_ in forest.groups if "\n" not in s_ and s_ != ""]
        for k in range(6):
            seq = []
            for _ in range(rng.randint(1, 3)):
                r_ = rng.random()
                if r_ < 0.65:
                    seq.append([rng.choice(["--include", "--exclude"]), "@" + rng.choice(syms)])
                elif r_ < 0.8:
                    seq.append(rng.choice([["--branches"], ["--no-tags"], ["--remotes"]]))
                else:
                    ref = rng.choice(refs)
                    seq.append([rng.choice(["--include", "--exclude"]), "/".join(ref.split("/")[:rng.randint(2, 3)])])
            root = rng.choice([None, None, refs[0]])
            argv = ["--json", "--no-progress", "--show-refs"] + [a for o in seq for a in o] + ([root] if root else [])
            r = R.sizer(binary, gitdir, argv, tmpdir=d)
            rules = [S.parse_opt(o) for o in seq]
            want = {ref: S.selected(rules, 1 if root else 0, ref, forest) for ref in refs}
            if r.rc != 0 or r.timed_out:
                out.append(("fail", argv, {"rc": r.rc, "stderr": r.err[-400:], "entries": entries[:12]}))
                continue
            _, marks, _ = P.parse_stderr(r.err)
            gotm = {n.decode("utf-8", "replace"): plus for plus, n in marks}
            diff = sorted(ref for ref in refs if gotm.get(ref) != want[ref])
            if diff:
                out.append(("mismatch", argv, {"refs": diff[:5], "want": [want[x] for x in diff[:5]], "entries": entries[:16]}))
            else:
                out.append(("ok", argv, sum(want.values())))
    finally:
        shutil.rmtree(d, ignore_errors=True)
    return out


def run(chk, b, tier):
    rng = random.Random("C06|%d" % R.SEED)
    sz = b.sizer()
    scratch = b.scratchdir()
    repoA = setup_repo(os.path.join(scratch, "A"), REFS_A)
    repoB = setup_repo(os.path.join(scratch, "B"), REFS_B)
    tmp = os.path.join(scratch, "tmp")
    os.makedirs(tmp)
    maxlen = 2 if tier == "quick" else 3
    jobs = []
    alpha = ALPHABET
    seqs = [()]
    for L in range(1, maxlen + 1):
        if L == 3:
            # length 3: exhaustive over a 16-option sub-alphabet (seeded choice), plus all with a regexp/group member
            sub = rng.sample(alpha, 16)
            seqs += list(itertools.product(sub, repeat=3))
        else:
            seqs += list(itertools.product(alpha, repeat=L))
    for seq in seqs:
        for root in (None, "refs/heads/main"):
            jobs.append((sz, repoA, REFS_A, list(seq), root, tmp))
    # repo B: all length<=1 and a seeded sample of length 2
    for seq in [()] + [(o,) for o in alpha] + rng.sample(list(itertools.product(alpha, repeat=2)), 150):
        jobs.append((sz, repoB, REFS_B, list(seq), rng.choice([None, "refs/heads/feature"]), tmp))
    # random longer sequences with generated patterns
    nrand = 300 if tier == "quick" else 4000
    for _ in range(nrand):
        L = rng.randint(3, 8)
        seq = []
        for _ in range(L):
            r = rng.random()
            if r < 0.6:
                seq.append(rng.choice(alpha))
            elif r < 0.8:
                nm = rng.choice(REFS_A)
                cut = rng.randint(5, len(nm))
                seq.append([rng.choice(["--include", "--exclude"]), nm[:cut]])
            else:
                p = gen_regex(rng)
                if valid_shared(p):
                    seq.append([rng.choice(["--include", "--exclude"]), "/" + p + "/"])
        if seq:
            jobs.append((sz, repoA, REFS_A, seq, rng.choice([None, None, "refs/tags/v1"]), tmp))
    results = R.pmap(run_seq, jobs, chunksize=16, chk=chk)
    sel_sizes = set()
    for status, argv, info in results:
        chk.count()
        if status == "ok":
            if 0 < info < 39:
                chk.nontrivial(" ".join(argv))
            sel_sizes.add(info)
        elif status == "mismatch":
            kinds = info["rule_kinds"]
            if "regexp-alternation" in kinds:
                sig = "C06/cli/mark-mismatch/regexp-with-top-level-alternation"
            else:
                sig = "C06/cli/mark-mismatch/" + "+".join(kinds)
            chk.violation(sig, {"argv": argv, **info})
        elif status == "fail":
            chk.violation("C06/cli/run-failed", {"argv": argv, **info})
        else:
            chk.inconc("model error on %r: %s" % (argv, info))
    chk.cov["cli_runs"] = len(results)
    chk.cov["fold_exhaustive_up_to_length"] = 2
    chk.cov["distinct_selection_sizes_seen"] = len(sel_sizes)
    chk.sample({"argv": results[5][1], "result": results[5][0]})
    chk.sample({"argv": results[-1][1], "result": results[-1][0]})

    for seq in ([], [["--include", "@mygroup"], ["--exclude", "refs/heads/foo"]], [["--branches"], ["--exclude", "@proj.rel"]]):
        R.fault_probe(chk, "C06", sz, repoA, ["--json", "--no-progress"] + [a for o in seq for a in o], rng, b.shimdir(), tmp,
                      n=4 if tier == "quick" else 30)
    # random refgroup forests x @group options
    nf = 40 if tier == "quick" else 600
    fres = R.pmap(forest_case, [(R.SEED, i, sz, scratch) for i in range(nf)], chk=chk)
    for lst in fres:
        for status, argv, info in lst:
            if status == "discard":
                chk.bump("forest_generator_discards")
                continue
            chk.count()
            if status == "ok":
                if info > 0:
                    chk.nontrivial("forest:" + " ".join(argv))
                chk.bump("forest_runs_agreeing")
            elif status == "mismatch":
                chk.violation("C06/cli/mark-mismatch/generated-refgroup-forest", {"argv": argv, **info})
            else:
                chk.violation("C06/cli/run-failed/generated-refgroup-forest", {"argv": argv, **info})
    # thousands of references (more than any internal batch): each is categorised exactly once, under every schedule
    nmany = 6000 if tier == "quick" else 30000
    blob = G.Blob(b"x\n")
    c0 = G.Commit(G.Tree([G.Entry(G.FILE, b"f", blob)]), [], msg=b"only\n")
    mm = G.Model()
    for i in range(nmany):
        mm.refs["refs/%s/n%05d" % (["heads", "tags", "remotes/o", "misc"][i % 4], i)] = c0
    # the references that git lists first and last are the only ones that reach their commits
    cz = G.Commit(G.Tree([G.Entry(G.FILE, b"last", G.Blob(b"only the last reference reaches this\n"))]), [c0], msg=b"last\n")
    ca = G.Commit(G.Tree([G.Entry(G.FILE, b"first", G.Blob(b"only the first reference reaches this\n"))]), [c0], msg=b"first\n")
    mm.refs["refs/zzz/last"] = cz
    mm.refs["refs/aaa/first"] = ca
    gmany = G.write_model(mm, os.path.join(scratch, "many"), packed_refs=True)
    for k in range(16 if tier == "quick" else 48):
        seq = [[], [["--no-tags"]], [["--include", "refs/heads"], ["--exclude", "/refs/heads/n000.*/"]], []][k % 4]
        argv = ["--json", "--no-progress", "--show-refs"] + [a for o in seq for a in o]
        # half of the runs write their reference listing to a reader that takes it in small pieces with pauses
        slow = [None, (4096, 2, 150), (1024, 1, 400), (512, 1, 300), None, (65536, 20, 600), (4096, 5, 800), (4096, 0.2, 200)][k % 8]
        r = R.sizer(sz, gmany, argv, env={"GOMAXPROCS": ["1", "2", "4", "16"][k % 4]}, tmpdir=tmp, timeout=300, slow_stderr=slow)
        chk.count()
        if r.rc != 0:
            chk.violation("C06/cli/run-failed/many-references", {"argv": argv, "stderr": r.err[-300:]})
            continue
        _, marks, _ = P.parse_stderr(r.err)
        names = [n.decode() for _, n in marks]
        if len(names) != len(set(names)) or set(names) != set(mm.refs):
            chk.violation("C06/cli/many-references/not-each-listed-exactly-once",
                          {"argv": argv, "listed": len(names), "distinct": len(set(names)), "want": len(mm.refs)})
            continue
        rules = [S.parse_opt(o) for o in seq]
        forest0 = S.Forest([])
        bad = [n for plus, nb in marks for n in [nb.decode()] if plus != S.selected(rules, 0, n, forest0)]
        if bad:
            chk.violation("C06/cli/mark-mismatch/many-references", {"argv": argv, "refs": bad[:5]})
        js, _ = P.parse_json(r.out)
        if js and js.get("reference_count") != len(mm.refs):
            chk.violation("C06/cli/many-references/reference_count", {"got": js.get("reference_count"), "want": len(mm.refs), "argv": argv,
                                                                     "slow_stderr_reader": slow})
        want_commits = 1 + sum(1 for n in ("refs/zzz/last", "refs/aaa/first") if S.selected(rules, 0, n, forest0))
        if js and js.get("unique_commit_count") != want_commits:
            chk.violation("C06/cli/many-references/selected-reference-not-walked", {"unique_commit_count": js.get("unique_commit_count"),
                                                                                    "want": want_commits, "argv": argv, "slow_stderr_reader": slow})
        chk.nontrivial(("many", k))
    chk.cov["many_references_runs"] = {"references": nmany}
    # API level: the match relation
    drv = b.apidrv()
    names, cases = api_filter_cases(rng, 1500 if tier == "quick" else 30000)
    inp = [{"id": i, "bare": 1, "steps": [{"pol": "include", "kind": c["kind"], "pattern": c["pattern"]}], "names": names}
           for i, c in enumerate(cases)]
    obs, rc, err = R.drv(drv, "filter", inp)
    if len(obs) != len(inp):
        chk.inconc("apidrv filter returned %d of %d" % (len(obs), len(inp)))
    matches = 0
    for o in obs:
        c = cases[o["id"]]
        chk.count(len(names))
        if "panic" in o:
            chk.violation("C06/api/panic/" + c["kind"], {"case": c, "panic": o["panic"]})
            continue
        if "err" in o:
            # RE2 rejected what python accepted: not comparable
            chk.bump("api_patterns_rejected_by_re2")
            continue
        if c["kind"] == "prefix":
            want = [S.prefix_match(c["pattern"], n) for n in names]
        else:
            want = [S.regexp_match(c["pattern"], n) for n in names]
        got = o["m"]
        matches += sum(want)
        if got != want:
            bad = [n for n, g, w in zip(names, got, want) if g != w][:4]
            if c["kind"] == "regexp" and _top_alt(c["pattern"]):
                sig = "C06/api/match-relation/regexp-with-top-level-alternation"
            else:
                sig = "C06/api/match-relation/" + c["kind"]
            chk.violation(sig, {"case": c, "names": bad, "want": [S.regexp_match(c["pattern"], n) if c["kind"] == "regexp"
                                                                  else S.prefix_match(c["pattern"], n) for n in bad]})
        else:
            if 0 < sum(want) < len(names):
                chk.nontrivial("api:" + c["kind"] + ":" + c["pattern"])
    chk.cov["api_patterns"] = len(cases)
    chk.cov["api_names"] = len(names)
    chk.cov["api_true_matches"] = matches
    from ._camp import generic_fault_sweep
    generic_fault_sweep(chk, b, "C06", [['--json', '--no-progress', '--include', 'refs/heads', '--exclude', 'refs/heads/dev'], ['--json', '--no-progress', '--include', '@mine', '--no-tags']])
    chk.cov["rule"] = ("CLI: every option sequence of length <= %d over a %d-option alphabet (prefix with/without slash, cut "
                       "mid-component, regexps with alternation/classes, @group incl. nested and rule-less groups, built-in "
                       "flags, deprecated spellings) x {no ROOT, ROOT} on a 39-ref repository, plus a second repository with "
                       "the D/F-conflicting names and seeded random sequences up to length 8; '+' marks of --show-refs vs the "
                       "selection model. API: git.PrefixFilter/RegexpFilter vs startswith-at-boundary / re.fullmatch over "
                       "generated names. Non-trivial: the selection is neither empty nor everything; distinct = distinct argv "
                       "/ distinct pattern.") % (maxlen, len(alpha))
    chk.assumptions += ["regexps restricted to the RE2/Python common subset; only the boolean 'matches entirely' is compared"]
    shutil.rmtree(scratch, ignore_errors=True)
