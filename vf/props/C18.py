"""C18 Progress goes to stderr only and reports the exact work done."""
import base64
import os
import random
import re
import shutil

from .. import gen as G
from .. import parse_out as P
from .. import run as R

LEVEL = "exploration"

FRAME = re.compile(rb"^(.*): (-?\d+)   (.?) {20}([\r\n])$", re.S)


def gen_scenario(rng, idx):
    nph = rng.randint(3, 12) if rng.random() < 0.8 else rng.randint(12, 40)
    period_us = rng.choice([1, 5, 20, 50, 100, 200, 500, 1000, 5000])
    phases = []
    for i in range(nph):
        incs = rng.choice([0, 0, 1, 2, 10, 100, 1000, rng.randint(0, 3000)])
        adds = [rng.randint(0, 50) for _ in range(rng.choice([0, 0, 0, 3]))]
        phases.append({
            "label": "phase-%d-%d: %%d" % (idx, i),
            "incs": incs, "adds": adds,
            "inc_delay_ns": rng.choice([0, 0, 200, 1000, 20000, 100000]),
            "delay_every": rng.choice([1, 7, 50, 0]),
            "gap_ns": rng.choice([0, 0, 0, 100, 1000, period_us * 500, period_us * 1000, period_us * 2500]),
            "pre_done_ns": rng.choice([0, 0, period_us * 900, period_us * 1100, period_us * 3000]),
        })
    return {"id": idx, "period_us": period_us, "phases": phases, "settle_periods": 25,
            "gomaxprocs": rng.choice([0, 1, 2, 3, 8, 16]),
            # a tenth of the scenarios write to a stderr whose writes fail: nothing may crash, the discipline stays
            "fail_every": rng.choice([1, 2, 5]) if idx % 10 == 7 else 0}


def judge_scenario(sc, o):
    """Returns (violations, stats)."""
    v = []
    labels = [ph["label"][:-4] for ph in sc["phases"]]     # strip ': %d'
    totals = [e["total"] for e in o["phases"]]
    recs = o["records"] or []
    state = {lab: {"last": -1, "final": False, "nonfinal": 0} for lab in labels}
    last_final_seq = None
    ticks = 0
    cur = 0     # index of the phase we expect frames from (frames appear in phase order)
    for r in recs:
        data = base64.b64decode(r["data"])
        m = FRAME.match(data)
        if not m:
            v.append(("write-is-not-one-complete-frame", {"data": data[:80], "seq": r["seq"]}))
            continue
        lab, cnt, spin, term = m.group(1).decode("utf-8", "replace"), int(m.group(2)), m.group(3), m.group(4)
        if lab not in state:
            v.append(("frame-with-unknown-label", {"label": lab}))
            continue
        st = state[lab]
        i = labels.index(lab)
        if st["final"]:
            v.append(("frame-after-final-line-of-its-phase", {"label": lab, "count": cnt, "terminator": term, "seq": r["seq"],
                                                               "marker": r["marker"]}))
            continue
        if i < cur:
            v.append(("frame-of-an-earlier-phase", {"label": lab, "current": labels[cur]}))
        cur = max(cur, i)
        if cnt < st["last"]:
            v.append(("count-decreases-within-phase", {"label": lab, "from": st["last"], "to": cnt}))
        if cnt > totals[i]:
            v.append(("count-exceeds-work-done", {"label": lab, "count": cnt, "total": totals[i]}))
        st["last"] = cnt
        if term == b"\n":
            st["final"] = True
            last_final_seq = r["seq"]
            if cnt != totals[i]:
                v.append(("final-line-count-differs-from-increments", {"label": lab, "count": cnt, "increments": totals[i]}))
            if spin != b" ":
                v.append(("final-line-spinner", {"label": lab}))
        else:
            st["nonfinal"] += 1
            ticks += 1
            if r["marker"] == -1:
                v.append(("tick-after-last-Done-returned(stale ticker)", {"label": lab, "seq": r["seq"]}))
    for lab in labels:
        if not state[lab]["final"]:
            v.append(("phase-without-final-line", {"label": lab}))
    if o["goroutines_after"] > o["goroutines_before"]:
        v.append(("ticker-goroutine-leak", {"before": o["goroutines_before"], "after": o["goroutines_after"]}))
    return v, {"ticks": ticks, "frames": len(recs)}


def api_level(chk, b, tier):
    drv = b.apidrv(race=True)
    rng = random.Random("C18|%d" % R.SEED)
    n = 160 if tier == "quick" else 10000
    scenarios = [gen_scenario(rng, i) for i in range(n)]
    # run in 16 driver processes with a race log
    logdir = os.path.join(b.dir, "racelogs-c18")
    os.makedirs(logdir, exist_ok=True)
    chunks = [scenarios[i::16] for i in range(16)]

    results = R.pmap(_runchunk, [(drv, logdir, ch) for ch in chunks], chk=chk)
    byid = {s["id"]: s for s in scenarios}
    ticks = frames = 0
    nobs = 0
    for obs, rc, err in results:
        for o in obs:
            nobs += 1
            sc = byid[o["id"]]
            chk.count()
            if "panic" in o:
                chk.violation("C18/api/panic", {"panic": o["panic"]})
                continue
            v, st = judge_scenario(sc, o)
            ticks += st["ticks"]
            frames += st["frames"]
            if st["ticks"] > 0:
                chk.nontrivial(("scenario", o["id"]))
            for clause, det in v:
                chk.violation("C18/api/" + clause, dict(det, period_us=sc["period_us"], gomaxprocs=sc["gomaxprocs"]))
    if nobs != n:
        chk.inconc("meter driver returned %d of %d scenarios" % (nobs, n))
    races = 0
    for fn in os.listdir(logdir):
        txt = open(os.path.join(logdir, fn), "rb").read()
        k = txt.count(b"WARNING: DATA RACE")
        if k:
            races += k
            chk.violation("C18/api/data-race/" + _race_sig(txt), {"report": txt[:2500]})
    chk.cov["api_scenarios"] = n
    chk.cov["api_frames_observed"] = frames
    chk.cov["api_tick_frames_observed"] = ticks
    chk.cov["api_race_reports"] = races
    if ticks == 0:
        chk.inconc("the meter never produced a tick frame")
    chk.sample({"scenario": {"period_us": scenarios[0]["period_us"], "phases": scenarios[0]["phases"][:2]}})


def _runchunk(arg):
    drv, logdir, ch = arg
    if not ch:
        return [], 0, b""
    return R.drv(drv, "meter", ch, env={"GORACE": "halt_on_error=0 log_path=%s/race" % logdir}, timeout=1800)


def _race_sig(txt):
    fns = re.findall(rb"\n  ([A-Za-z0-9_./*()]+)\(\)\n", txt)
    fns = [f.decode() for f in fns if b"meter" in f or b"sizes" in f or b"git." in f][:2]
    return "+".join(sorted(set(fns))) or "unknown"


LABELS = [b"Processing blobs", b"Processing trees", b"Processing commits", b"Matching commits to trees",
          b"Processing annotated tags", b"Processing references"]


def cli_case(arg):
    seed, idx, sz, shimdir, scratch = arg
    rng = random.Random("C18c|%d|%d" % (seed, idx))
    d = os.path.join(scratch, "p%d" % idx)
    os.makedirs(d)
    out = {"viol": [], "evals": 0, "ticks": 0, "sample": None}
    try:
        m = G.random_model(rng, size="medium", hostile_names=False)
        gitdir = G.write_model(m, os.path.join(d, "repo"))
        names = rng.choice(["full", "full", "hash", "none"])
        roots = []
        from .. import oracle as O_
        rc_ = [o for o in O_.reachable(list(m.refs.values())).values() if o.kind == "commit"]
        if rc_ and rng.random() < 0.5:
            roots = [rc_[0].oid] * rng.randint(1, 2)
        sel = rng.choice([[], ["--branches"], ["--tags", "--branches"]]) if roots or rng.random() < 0.5 else []
        fmt_ = rng.choice([["--json"], ["--json"], ["--json", "--json-version=2"], ["-v"], []])
        argv = fmt_ + ["--names=" + names] + (["--show-refs"] if rng.random() < 0.5 else []) + sel + roots
        r0 = R.sizer(sz, gitdir, argv + ["--no-progress"], tmpdir=d)
        out["evals"] += 1
        if r0.rc != 0:
            out["viol"].append(("run-failed", {"stderr": r0.err[-300:]}))
            return out
        f0, _, rest0 = P.parse_stderr(r0.err)
        if f0 or b"Processing" in r0.err:
            out["viol"].append(("no-progress-emits-frames", {"stderr": r0.err[:200]}))
        if "--json" in argv and "--json-version=2" not in argv:
            js, _ = P.parse_json(r0.out)
        else:
            rj = R.sizer(sz, gitdir, ["--json", "--no-progress", "--names=" + names] + sel + roots, tmpdir=d)
            js, _ = P.parse_json(rj.out)
        # slow children so that phases last several meter periods
        rules = []
        if idx % 2 == 0:
            rules.append({"sig": "rev-list", "ord": -1, "mode": "delay", "chunk": rng.choice([64, 256, 1024]), "chunk_ms": rng.choice([5, 20, 60]),
                          "pre_ms": rng.choice([0, 150]), "max_ms": 700})
            rules.append({"sig": "cat-file --batch", "ord": -1, "mode": "delay", "chunk": rng.choice([128, 1024, 4096]),
                          "chunk_ms": rng.choice([5, 30]), "max_ms": 700, "exit_ms": rng.choice([0, 120])})
        plan = R.make_plan(os.path.join(d, "plan"), rules) if rules else None
        how = rng.choice(["flag", "config"])
        env = {}
        a2 = list(argv)
        if how == "flag":
            a2.append("--progress")
        else:
            env = {"GIT_CONFIG_COUNT": "1", "GIT_CONFIG_KEY_0": "sizer.progress", "GIT_CONFIG_VALUE_0": "true"}
        r1 = R.sizer(sz, gitdir, a2, env=env, shimdir=shimdir, plan=plan, tmpdir=d)
        out["evals"] += 1
        if r1.rc != 0:
            out["viol"].append(("run-failed-with-progress", {"stderr": r1.err[-300:]}))
            return out
        if r1.out != r0.out:
            out["viol"].append(("progress-changes-stdout", {}))
        if b"Processing" in r1.out:
            out["viol"].append(("progress-on-stdout", {}))
        frames, _, rest = P.parse_stderr(r1.err)
        want = {
            b"Processing blobs": js["unique_blob_count"], b"Processing trees": js["unique_tree_count"],
            b"Processing commits": js["unique_commit_count"], b"Processing annotated tags": js["unique_tag_count"],
            b"Processing references": js["reference_count"] + len(roots),
        }
        if names != "none":
            want[b"Matching commits to trees"] = js["unique_commit_count"]
        finals = {}
        last = {}
        done = set()
        order = []
        for lab, cnt, spin, term in frames:
            if lab in done:
                out["viol"].append(("frame-after-final-line-of-its-phase", {"label": lab, "count": cnt}))
                continue
            if lab not in order:
                order.append(lab)
            if cnt < last.get(lab, 0):
                out["viol"].append(("count-decreases-within-phase", {"label": lab, "from": last[lab], "to": cnt}))
            last[lab] = cnt
            if term == b"\n":
                finals[lab] = cnt
                done.add(lab)
            else:
                out["ticks"] += 1
        # the property fixes the counts per phase, not the wording of the labels: compare in phase order
        got_seq = [finals.get(l) for l in order]
        want_seq = [want[l] for l in LABELS if l in want]
        if got_seq != want_seq:
            out["viol"].append(("final-counts-differ-from-census", {"got": {k.decode(): v for k, v in finals.items()},
                                                                     "want": {k.decode(): v for k, v in want.items()}, "names": names}))
        junk = [x for x in rest if x.strip() and not x.startswith(b"References (included")]
        if junk:
            out["viol"].append(("unparsable-stderr-with-progress", {"rest": junk[:3]}))
        out["sample"] = {"argv": a2, "final_frames": {k.decode(): v for k, v in finals.items()}, "tick_frames": out["ticks"],
                         "delayed_children": bool(rules)}
        # the same comparison with presentation settings coming from gitconfig (threshold, names style, JSON version) and
        # the progress switch given explicitly both ways: only the switch differs, stdout must not
        AMB = [({"sizer.threshold": "0"}, []), ({"sizer.threshold": "30", "sizer.names": "hash"}, []),
               ({"sizer.jsonVersion": "2", "sizer.names": "none"}, ["--json"]), ({"sizer.threshold": "0", "sizer.progress": "true"}, ["--show-refs"])]
        cfg, aargv = AMB[idx % len(AMB)]
        aenv = {"GIT_CONFIG_COUNT": str(len(cfg))}
        for i_, (k_, v_) in enumerate(sorted(cfg.items())):
            aenv["GIT_CONFIG_KEY_%d" % i_] = k_
            aenv["GIT_CONFIG_VALUE_%d" % i_] = v_
        ra = [R.sizer(sz, gitdir, aargv + sel + roots + [sw], env=aenv, tmpdir=d) for sw in ("--no-progress", "--progress", "--progress=false")]
        out["evals"] += 3
        out["ambient_runs"] = out.get("ambient_runs", 0) + 3
        if any(r.rc != 0 for r in ra):
            out["viol"].append(("run-failed/settings-from-gitconfig", {"config": cfg, "exit": [r.rc for r in ra], "stderr": ra[0].err[-200:]}))
        elif not (ra[0].out == ra[1].out == ra[2].out):
            out["viol"].append(("progress-changes-stdout/settings-from-gitconfig", {"config": cfg, "argv": aargv + sel + roots,
                                                                                    "stdout_bytes": [len(r.out) for r in ra]}))
        # a stderr that cannot be written (/dev/full) behind slow children, so that ticks happen: progress must not change
        # stdout or the exit status
        if idx % 3 == 0:
            rules2 = [{"sig": "rev-list", "ord": -1, "mode": "delay", "chunk": 64, "chunk_ms": 40, "max_ms": 600},
                      {"sig": "cat-file --batch", "ord": -1, "mode": "delay", "chunk": 256, "chunk_ms": 40, "max_ms": 600}]
            plan2 = R.make_plan(os.path.join(d, "fullplan"), rules2)
            e2 = R.base_env({}, shimdir=shimdir)
            e2["VERIF_SHIM_PLAN"] = plan2
            import subprocess as sp
            with open("/dev/full", "wb") as full, open(os.path.join(d, "full.out"), "wb") as fo:
                pr = sp.run([sz] + argv + ["--progress"], cwd=gitdir, env=e2, stdout=fo, stderr=full, timeout=120)
            out["evals"] += 1
            got_full = open(os.path.join(d, "full.out"), "rb").read()
            if pr.returncode != 0 or got_full != r0.out:
                out["viol"].append(("progress-with-unwritable-stderr-changes-result", {"rc": pr.returncode, "stdout_bytes": len(got_full),
                                                                                     "expected_bytes": len(r0.out)}))
            out["devfull_runs"] = out.get("devfull_runs", 0) + 1
        # failing runs: the frame discipline (nothing for a phase after its final line, counts never decrease) holds on
        # stderr also when a git child dies before / in the middle of / right after its output
        for k in range(3):
            sig = rng.choice(["rev-list", "cat-file --batch-check", "cat-file --batch", "cat-file --batch"])
            rule = {"sig": sig, "ord": 0, "mode": "fault", "term": rng.choice(["exit:2", "exit:128", "sig:KILL"]),
                    "after_bytes": rng.choice([0, 41, 300, 1 << 40, 1 << 40])}
            pdir = os.path.join(d, "fplan%d" % k)
            fplan = R.make_plan(pdir, [rule])
            rf = R.sizer(sz, gitdir, argv + ["--progress"], shimdir=shimdir, plan=fplan, tmpdir=d, timeout=30)
            out["evals"] += 1
            if rf.timed_out:
                continue
            # (whether such a run may exit 0 is C10's business; what it printed on stderr is judged here either way)
            ff, _, _ = P.parse_stderr(rf.err)
            fdone = set()
            flast = {}
            for lab, cnt, spin, term in ff:
                if lab in fdone:
                    out["viol"].append(("frame-after-final-line-of-its-phase/run-with-a-failing-child", {"label": lab, "count": cnt, "rule": rule, "exit_status": rf.rc,
                                                                                           "stderr": rf.err[-400:]}))
                    break
                if cnt < flast.get(lab, 0):
                    out["viol"].append(("count-decreases-within-phase/run-with-a-failing-child", {"label": lab, "rule": rule, "exit_status": rf.rc}))
                flast[lab] = cnt
                if term == b"\n":
                    fdone.add(lab)
            out["fault_runs"] = out.get("fault_runs", 0) + 1
    finally:
        shutil.rmtree(d, ignore_errors=True)
    return out


def run(chk, b, tier):
    api_level(chk, b, tier)
    sz = b.sizer()
    shimdir = b.shimdir()
    scratch = b.scratchdir()
    n = 24 if tier == "quick" else 900
    res = R.pmap(cli_case, [(R.SEED, i, sz, shimdir, scratch) for i in range(n)], chk=chk)
    ticks = 0
    for i, r in enumerate(res):
        chk.count(r["evals"])
        chk.bump("cli_failing_runs_with_progress_judged", r.get("fault_runs", 0))
        chk.bump("cli_runs_with_stderr_dev_full", r.get("devfull_runs", 0))
        chk.bump("cli_runs_with_settings_from_gitconfig", r.get("ambient_runs", 0))
        ticks += r["ticks"]
        for clause, det in r["viol"]:
            chk.violation("C18/cli/" + clause, det)
        if r["ticks"]:
            chk.nontrivial(("cli", i))
        if r["sample"]:
            chk.sample(r["sample"], limit=4)
    chk.cov["cli_runs"] = n
    chk.cov["cli_tick_frames_observed"] = ticks
    if ticks == 0:
        chk.inconc("no non-final progress frame was ever observed at CLI level")
    # the counts a caller-supplied meter receives (library use) while its callbacks pause the calling goroutines
    from ._camp import api_delay_stage
    api_delay_stage(chk, b, [], "C18", 4 if tier == "quick" else 80, phase_totals=True)
    from ._camp import generic_fault_sweep
    generic_fault_sweep(chk, b, "C18", [['--progress', '-v'], ['--progress', '--json', '--branches']])
    chk.cov["rule"] = ("API (-race build): the real meter.NewProgressMeter with a recording writer; 3-40 phases with unique labels, "
                       "seeded increment counts and micro-delays, zero/tiny gaps between Done and the next Start, periods 1us-5ms, "
                       "GOMAXPROCS 1-16, settling wait of 25 periods. Monitors: each write is one complete frame; counts never "
                       "decrease nor exceed the work done; the LF-terminated final frame carries exactly the increments; no frame "
                       "of a phase after its final frame; no tick after the last Done returned; goroutines back to baseline; race "
                       "detector log empty. CLI: --progress (flag or sizer.progress) vs --no-progress: stdout identical, no frame "
                       "with --no-progress, final frames == JSON census (references = reference_count + ROOTs; 'Matching commits' "
                       "absent for --names=none), half of the runs behind the delaying shim so that ticks occur. Non-trivial: "
                       "scenarios/runs in which tick frames were observed.")
    chk.assumptions += ["fmt.Fprintf performs one Write per call on the recording writer (checked: a split frame would be reported)"]
