"""C04 Checkout metrics equal the recursive expansion of the worst tree."""
from ._camp import run_campaign

LEVEL = "exploration"


def run(chk, b, tier):
    n = 200 if tier == "quick" else 15000

    def nt(f):
        return ["objects>=4"] if f["objects"] >= 4 else []

    run_campaign(chk, b, ["trees", "trees", "general", "hostile-names"], n, ["checkout"], "C04", nt,
                 "tree-DAG generator (deep chains, wide trees, symlink / gitlink heavy subtrees, shared subtrees under "
                 "several names, empty subtrees, trees reachable only through a tag / ref / ROOT); the 7 checkout numbers "
                 "vs a memoised big-integer DP, each dimension maximised independently. Non-trivial: >=4 reachable objects.",
                 permute=0.3)
    chk.assumptions += ["reference model and generator trusted; generator self-checked against git"]
