#!/usr/bin/env python3
"""Runs the repository's suite (guard off) and checks that every test of BASELINE.json stable_pass passes."""
import json, os, shutil, subprocess, sys, tempfile
# the suite leaves temporary repositories behind: give it a private TMPDIR and remove that afterwards
tmp = tempfile.mkdtemp(prefix="baseline-tmp-", dir=os.path.join(os.path.dirname(os.path.dirname(os.path.abspath(__file__))), "build")
                       if os.path.isdir(os.path.join(os.path.dirname(os.path.dirname(os.path.abspath(__file__))), "build")) else None)
env = dict(os.environ, GOFLAGS="-mod=mod", GOPROXY="off", GOSUMDB="off", GOTOOLCHAIN="local", TMPDIR=tmp)
repo = os.environ.get("VERIF_REPO", "/repo")
p = subprocess.run(["go", "test", "-mod=mod", "-json", "-vet=off", "-count=1", "-timeout", "25m", "./..."], cwd=repo, env=env,
                   stdout=subprocess.PIPE, stderr=subprocess.PIPE)
shutil.rmtree(tmp, ignore_errors=True)
status = {}
for line in p.stdout.decode(errors="replace").splitlines():
    try:
        e = json.loads(line)
    except ValueError:
        continue
    if e.get("Test") and e.get("Action") in ("pass", "fail", "skip"):
        status["%s::%s" % (e["Package"], e["Test"])] = e["Action"]
base = json.load(open("/root/.vp/BASELINE.json"))["stable_pass"]
bad = [t for t in base if status.get(t) != "pass"]
print("stable tests: %d, passing now: %d" % (len(base), len(base) - len(bad)))
for t in bad:
    print("NOT PASSING:", t, status.get(t))
sys.exit(1 if bad else 0)
