"""C14 Command line overrides gitconfig; equivalent spellings give identical output."""
import itertools
import os
import random
import shutil
import subprocess

from .. import gen as G
from .. import parse_out as P
from .. import run as R
from .C11 import concerning_model

LEVEL = "exploration"

CONFIG = """
[refgroup "mine"]
\tinclude = refs/heads
\texclude = refs/heads/x
[refgroup "mine.sub"]
\tinclude = refs/heads/main
[refgroup "mine.out"]
\tincludeRegexp = .*/x
[refgroup "tags.xs"]
\tincludeRegexp = refs/.*/x
[refgroup "Rel"]
\tinclude = refs/tags
[refgroup "rel"]
\tinclude = refs/heads/main
[refgroup "Rel.Sub-1"]
\tincludeRegexp = refs/tags/.*x
"""


def boundary_model():
    """Ratios sitting exactly on 1, 2, 30 and just around them, so that thresholds that differ by a hair select
    different rows: parents 300 (30.0), path depth 10 (1.0), gitlinks 3000 (30.0), tree entries 2000 (2.0),
    path length 100 (1.0), tag chain 30 (29.97)."""
    blob = G.Blob(b"x")
    deep = G.Tree([G.Entry(G.FILE, b"f" * 82, blob)])           # 9 dirs "dd" + '/' ... -> total path length 100
    for _ in range(9):
        deep = G.Tree([G.Entry(G.TREE, b"d", deep)])
    subs = G.Tree([G.Entry(G.GITLINK, b"m%05d" % j, "%040x" % (j + 1)) for j in range(3000)])
    wide = G.Tree([G.Entry(G.FILE, b"w%05d" % j, blob) for j in range(2000)])
    top = G.Tree([G.Entry(G.TREE, b"p", deep), G.Entry(G.TREE, b"subs", subs), G.Entry(G.TREE, b"wide", wide)])
    parents = [G.Commit(top, [], cts=100 + j, msg=b"p%d\n" % j) for j in range(300)]
    head = G.Commit(top, parents, cts=5000)
    m = G.Model()
    m.refs["refs/heads/main"] = head
    tg = head
    for j in range(30):
        tg = G.Tag(tg, name=b"t%d" % j)
    m.refs["refs/tags/chain"] = tg
    return m


def cfg_env(scope, key, val, d, tag):
    """Returns (env, cleanup_fn). scope: command | global | local(handled by caller)"""
    if scope == "command":
        return {"GIT_CONFIG_COUNT": "1", "GIT_CONFIG_KEY_0": key, "GIT_CONFIG_VALUE_0": val}
    if scope == "global":
        p = os.path.join(d, "global-%s.cfg" % tag)
        sec, var = key.split(".", 1)
        with open(p, "w") as f:
            f.write('[%s]\n\t%s = "%s"\n' % (sec, var, val))
        return {"GIT_CONFIG_GLOBAL": p}
    if scope == "parameters":
        return {"GIT_CONFIG_PARAMETERS": "'%s=%s'" % (key, val)}
    raise ValueError(scope)


def pairs_for(rng, refs):
    """Yield (family, description, (cfgA, argvA), (cfgB, argvB), expect) where cfg = None or (key, value);
    expect: 'same' (stdout + exit status identical), 'same-ok' (additionally exit 0), 'A-fails'."""
    out = []
    ths = ["0", "1", "30", "0.5", "2", "7.5", "29", "31", "1e3", "-1", "1.0000001", "30.0000001", "29.9999999", "0.9999999"]
    for v in ths:
        out.append(("threshold", "config=option", (("sizer.threshold", v), []), (None, ["--threshold=" + v]), "same-ok"))
    for v1, v2 in [("0", "30"), ("30", "0"), ("2", "1"), ("abc", "1"), ("", "3")]:
        for opt in (["--threshold=" + v2],):
            out.append(("threshold", "option-overrides-config", (("sizer.threshold", v1), opt), (None, opt), "same-ok"))
    for v1 in ("0", "abc", "30"):
        for opt in (["--verbose"], ["--critical"], ["--no-verbose"], ["-v"]):
            out.append(("threshold", "flag-overrides-config", (("sizer.threshold", v1), opt), (None, opt), "same-ok"))
    for bad in ("abc", "1,5", "--"):
        out.append(("threshold", "invalid-config-no-option", (("sizer.threshold", bad), []), None, "A-fails"))
    for v in ("none", "hash", "full", "sha1", "sha-1"):
        out.append(("names", "config=option", (("sizer.names", v), ["-v"]), (None, ["-v", "--names=" + v]), "same-ok"))
        out.append(("names", "config=option(json)", (("sizer.names", v), ["--json"]), (None, ["--json", "--names=" + v]), "same-ok"))
    for v1, v2 in [("none", "full"), ("full", "none"), ("hash", "full"), ("bogus", "hash"), ("bogus", "full")]:
        out.append(("names", "option-overrides-config", (("sizer.names", v1), ["-v", "--names=" + v2]), (None, ["-v", "--names=" + v2]), "same-ok"))
    out.append(("names", "invalid-config-no-option", (("sizer.names", "bogus"), ["-v"]), None, "A-fails"))
    for v in ("1", "2"):
        out.append(("jsonVersion", "config=option", (("sizer.jsonVersion", v), ["--json"]), (None, ["--json", "--json-version=" + v]), "same-ok"))
        out.append(("jsonVersion", "config=option(-j)", (("sizer.jsonVersion", v), ["-j"]), (None, ["-j", "--json-version=" + v]), "same-ok"))
    for v1, v2 in [("1", "2"), ("2", "1"), ("7", "2"), ("x", "1")]:
        out.append(("jsonVersion", "option-overrides-config", (("sizer.jsonVersion", v1), ["--json", "--json-version=" + v2]),
                    (None, ["--json", "--json-version=" + v2]), "same-ok"))
    for bad in ("3", "0", "x"):
        out.append(("jsonVersion", "invalid-config-no-option", (("sizer.jsonVersion", bad), ["--json"]), None, "A-fails"))
    out.append(("jsonVersion", "ignored-without-json", (("sizer.jsonVersion", "9"), []), (None, []), "same-ok"))
    # last one wins among --threshold / --verbose / --no-verbose / --critical
    alpha = [["--threshold=2"], ["--threshold=0.5"], ["--verbose"], ["--no-verbose"], ["--critical"], ["-v"], ["--threshold=31"]]
    for L in (2, 3):
        for seq in itertools.product(alpha, repeat=L):
            argv = [a for o in seq for a in o]
            out.append(("last-wins", "sequence", (None, argv), (None, list(seq[-1])), "same-ok"))
    # spellings
    sp = [
        (["--verbose"], ["--threshold=0"]), (["-v"], ["--threshold=0"]), (["--critical"], ["--threshold=30"]),
        (["--no-verbose"], ["--threshold=1"]), (["--no-verbose"], []), (["-j"], ["--json"]),
        (["-j", "--json-version=2"], ["--json", "--json-version=2"]),
        (["--json", "--include-regexp", "refs/(heads|tags)/.*"], ["--json", "--include", "/refs/(heads|tags)/.*/"]),
        (["--json", "--exclude-regexp", ".*/main"], ["--json", "--exclude", "/.*/main/"]),
        (["--json", "--include-regexp=refs/heads/x|refs/tags/chain"], ["--json", "--include=/refs/heads/x|refs/tags/chain/"]),
        (["--json", "--refgroup", "mine"], ["--json", "--include", "@mine"]),
        (["--json", "--refgroup=mine.sub"], ["--json", "--include=@mine.sub"]),
        (["--json", "--refgroup", "mine.out"], ["--json", "--include", "@mine.out"]),
        (["--json", "--json-version=2", "--refgroup", "tags.xs"], ["--json", "--json-version=2", "--include", "@tags.xs"]),
        (["-v", "--refgroup=tags.xs"], ["-v", "--include=@tags.xs"]),
        (["--json", "--refgroup=mine.out", "--exclude", "refs/stash"], ["--json", "--include=@mine.out", "--exclude", "refs/stash"]),
        (["--json", "--refgroup", "tags", "--exclude", "refs/tags/x"], ["--json", "--include", "@tags", "--exclude", "refs/tags/x"]),
        (["--json", "--refgroup", "Rel"], ["--json", "--include", "@Rel"]),
        (["--json", "--refgroup=rel"], ["--json", "--include=@rel"]),
        (["--json", "--json-version=2", "--refgroup=Rel.Sub-1"], ["--json", "--json-version=2", "--include=@Rel.Sub-1"]),
        (["-v", "--show-refs", "--refgroup", "Rel", "--exclude=@rel"], ["-v", "--show-refs", "--include=@Rel", "--exclude", "@rel"]),
        (["--json", "--branches"], ["--json", "--include", "refs/heads"]),
        (["--json", "--no-tags"], ["--json", "--exclude", "refs/tags"]),
        (["--json", "--stash"], ["--json", "--include", "/refs/stash/"]),
        (["-v", "--names", "hash"], ["-v", "--names=hash"]), (["--threshold", "5"], ["--threshold=5"]),
    ]
    for a, b in sp:
        out.append(("spelling", "equivalent", (None, a), (None, b), "same-ok"))
    return out


def pair_job(arg):
    sz, gitdir, d, jid, fam, desc, A, B, expect, scope = arg[:10]
    shimdir = arg[10] if len(arg) > 10 else None

    def run(side, tag):
        cfg, argv = side
        env = {}
        local = None
        if cfg is not None:
            if scope == "local":
                local = cfg
            elif scope != "worktree":
                env = cfg_env(scope, cfg[0], cfg[1], d, "%d%s" % (jid, tag))
        gd = gitdir
        if cfg is not None and scope == "worktree":
            # per-worktree configuration (extensions.worktreeConfig): the entry lives in the linked worktree's config.worktree,
            # a conflicting one in the main worktree's, and the run starts inside the linked worktree
            gd = os.path.join(d, "wtcfg-%d%s" % (jid, tag))
            shutil.copytree(gitdir, gd)
            wt = os.path.join(d, "wtcfg-%d%s-wt" % (jid, tag))
            head = G.rgit(gd, "rev-parse", "--verify", "refs/heads/main^{commit}", check=False).stdout.decode().strip()
            pw = subprocess.run([G.REAL_GIT, "--git-dir", gd, "worktree", "add", "--detach", "--no-checkout", wt, head], env=G.git_env(),
                                stdout=subprocess.PIPE, stderr=subprocess.PIPE)
            cfgp = os.path.join(gd, "config")
            t = open(cfgp).read().replace("repositoryformatversion = 0", "repositoryformatversion = 1")
            open(cfgp, "w").write(t + "[extensions]\n\tworktreeConfig = true\n")
            wdir = os.path.join(gd, "worktrees", os.path.basename(wt))
            sec, var = cfg[0].split(".", 1)
            other = {"threshold": "17.5", "names": "hash" if cfg[1] != "hash" else "none", "jsonversion": "1" if cfg[1] == "2" else "2",
                     "progress": "true"}.get(var.lower(), "1")
            try:
                if pw.returncode != 0 or not os.path.isdir(wdir):
                    return None
                with open(os.path.join(wdir, "config.worktree"), "w") as f:
                    f.write('[%s]\n\t%s = "%s"\n' % (sec, var, cfg[1]))
                with open(os.path.join(gd, "config.worktree"), "w") as f:
                    f.write('[%s]\n\t%s = "%s"\n' % (sec, var, other))
                return R.sizer(sz, wt, ["--no-progress"] + argv, env={}, tmpdir=d)
            finally:
                shutil.rmtree(gd, ignore_errors=True)
                shutil.rmtree(wt, ignore_errors=True)
        if local is not None:
            # private copy of the repository's config only (objects shared through a symlinked layout is overkill: copy gitdir)
            gd = os.path.join(d, "local-%d%s" % (jid, tag))
            shutil.copytree(gitdir, gd)
            sec, var = local[0].split(".", 1)
            with open(os.path.join(gd, "config"), "a") as f:
                f.write('[%s]\n\t%s = "%s"\n' % (sec, var, local[1]))
        plan = None
        if cfg is not None and shimdir and (jid * 7 + len(desc)) % 3 == 0:
            # the child that looks the setting up answers late (cold cache): its answer is still the one that counts
            plan = R.make_plan(os.path.join(d, "slowcfg-%d%s" % (jid, tag)),
                               [{"sig": "config --get " + cfg[0], "ord": -1, "mode": "delay", "pre_ms": 1300, "max_ms": 1500}])
        try:
            return R.sizer(sz, gd, ["--no-progress"] + argv, env=env, tmpdir=d, shimdir=shimdir, plan=plan)
        finally:
            if plan:
                shutil.rmtree(os.path.dirname(plan), ignore_errors=True)
            if gd != gitdir:
                shutil.rmtree(gd, ignore_errors=True)

    ra = run(A, "a")
    if ra is None:
        return [("INCONCLUSIVE", "could not create the linked worktree")], 0
    v = []
    ctx = {"family": fam, "what": desc, "A": A, "B": B, "scope": scope}
    if expect == "A-fails":
        if ra.rc == 0:
            v.append(("invalid-config-value-accepted", ctx))
        return v, 1
    rb = run(B, "b")
    if ra.rc != rb.rc:
        v.append(("exit-status-differs", dict(ctx, rcA=ra.rc, rcB=rb.rc, errA=ra.err[-200:], errB=rb.err[-200:])))
    elif ra.out != rb.out:
        v.append(("stdout-differs", dict(ctx, first_diff=_first_diff(ra.out, rb.out))))
    if expect == "same-ok" and rb.rc != 0:
        v.append(("reference-run-failed", dict(ctx, rc=rb.rc, err=rb.err[-200:])))
    return v, 2


def _first_diff(a, b):
    for x, y in zip(a.split(b"\n"), b.split(b"\n")):
        if x != y:
            return [x[:140], y[:140]]
    return ["<length>", "%d vs %d" % (len(a), len(b))]


def progress_pairs(chk, sz, gitdir, d):
    """sizer.progress has exactly the effect of --progress / --no-progress when neither is given, none when one is."""
    def frames(r):
        f, _, _ = P.parse_stderr(r.err)
        return len(f)
    base = R.sizer(sz, gitdir, ["--json", "--no-progress"], tmpdir=d)
    cases = [
        ("config-true", {"sizer.progress": "true"}, [], True), ("config-false", {"sizer.progress": "false"}, [], False),
        ("config-yes", {"sizer.progress": "yes"}, [], True), ("config-0", {"sizer.progress": "0"}, [], False),
        ("config-false+--progress", {"sizer.progress": "false"}, ["--progress"], True),
        ("config-true+--no-progress", {"sizer.progress": "true"}, ["--no-progress"], False),
        ("config-invalid+--no-progress", {"sizer.progress": "maybe"}, ["--no-progress"], False),
        ("config-invalid+--progress", {"sizer.progress": "maybe"}, ["--progress"], True),
        ("option-only-progress", {}, ["--progress"], True), ("option-only-no-progress", {}, ["--no-progress"], False),
        ("--progress --no-progress", {}, ["--progress", "--no-progress"], False),
        ("--no-progress --progress", {}, ["--no-progress", "--progress"], True),
    ]
    for name, cfg, argv, want in cases:
        env = {}
        if cfg:
            k, v = list(cfg.items())[0]
            env = {"GIT_CONFIG_COUNT": "1", "GIT_CONFIG_KEY_0": k, "GIT_CONFIG_VALUE_0": v}
        r = R.sizer(sz, gitdir, ["--json"] + argv, env=env, tmpdir=d)
        chk.count()
        chk.nontrivial(("progress", name))
        if r.rc != 0:
            chk.violation("C14/progress/run-failed/" + name, {"stderr": r.err[-200:]})
            continue
        if r.out != base.out:
            chk.violation("C14/progress/stdout-differs/" + name, {})
        if (frames(r) > 0) != want:
            chk.violation("C14/progress/frames-%s/%s" % ("missing" if want else "unexpected", name), {"frames": frames(r), "stderr": r.err[:200]})
    r = R.sizer(sz, gitdir, ["--json"], env={"GIT_CONFIG_COUNT": "1", "GIT_CONFIG_KEY_0": "sizer.progress", "GIT_CONFIG_VALUE_0": "maybe"}, tmpdir=d)
    chk.count()
    if r.rc == 0:
        chk.violation("C14/progress/invalid-config-value-accepted", {})


def run(chk, b, tier):
    rng = random.Random("C14|%d" % R.SEED)
    sz = b.sizer()
    scratch = b.scratchdir()
    d = os.path.join(scratch, "c14")
    os.makedirs(d)
    nrepos = 2 if tier == "quick" else 12
    jobs = []
    jid = 0
    for ri in range(nrepos):
        m = boundary_model() if ri == 0 else concerning_model(random.Random("C14m|%d|%d" % (R.SEED, ri)))
        m.config = CONFIG
        c = m.refs["refs/heads/main"]
        m.refs["refs/heads/x"] = c.parents[0] if c.parents else c
        m.refs["refs/tags/x"] = c
        m.refs["refs/stash"] = c
        gitdir = G.write_model(m, os.path.join(d, "repo%d" % ri))
        prs = pairs_for(rng, m.refs)
        if tier == "quick":
            keep = [p for p in prs if p[0] != "last-wins"] + rng.sample([p for p in prs if p[0] == "last-wins"], 120)
        else:
            keep = prs
        for fam, desc, A, B, expect in keep:
            scopes = ["command"]
            if A[0] is not None:
                scopes = [rng.choice(["command", "global", "local", "parameters", "worktree"])] if tier == "quick" else \
                    ["command", "global", "local", "parameters", "worktree"]
            for sc in scopes:
                jobs.append((sz, gitdir, d, jid, fam, desc, A, B, expect, sc, b.shimdir()))
                jid += 1
        if ri == 0:
            progress_pairs(chk, sz, gitdir, d)
            for fa, envx in ((["--json"], {"GIT_CONFIG_COUNT": "1", "GIT_CONFIG_KEY_0": "sizer.jsonVersion", "GIT_CONFIG_VALUE_0": "2"}),
                             (["-v", "--names=hash"], {"GIT_CONFIG_COUNT": "1", "GIT_CONFIG_KEY_0": "sizer.names", "GIT_CONFIG_VALUE_0": "none"}),
                             ([], {"GIT_CONFIG_COUNT": "1", "GIT_CONFIG_KEY_0": "sizer.threshold", "GIT_CONFIG_VALUE_0": "0"})):
                R.fault_probe(chk, "C14", sz, gitdir, fa + ["--no-progress"], rng, b.shimdir(), d, n=4 if tier == "quick" else 25, env=envx)
                # every `git config` child of such a run failing at every point: success must mean the configured behaviour
                R.fault_sweep(chk, "C14", sz, gitdir, fa + ["--no-progress"], b.shimdir(), d, env=envx,
                              only=["config"] if tier == "quick" else None)
    jobs, res = R.pmap(pair_job, jobs, chunksize=4, chk=chk, with_items=True)
    fams = {}
    for job, (viol, nruns) in zip(jobs, res):
        chk.count(nruns)
        fam = job[4]
        fams[fam] = fams.get(fam, 0) + 1
        chk.nontrivial((job[4], job[5], repr(job[6]), repr(job[7]), job[9]))
        for clause, det in viol:
            if clause == "INCONCLUSIVE":
                chk.inconc(det)
                continue
            chk.violation("C14/%s/%s/%s" % (fam, job[5], clause), det)
    chk.cov["pairs_per_family"] = fams
    chk.sample({"pair": {"A": jobs[0][6], "B": jobs[0][7], "scope": jobs[0][9]}})
    chk.sample({"pair": {"A": jobs[-1][6], "B": jobs[-1][7]}})
    chk.cov["rule"] = ("metamorphic pairs on 'concerning' repositories: config F=v / no option == option v; config v1 + option v2 == "
                       "option v2; invalid config + option == option (exit 0); invalid config alone => error; for F in threshold, "
                       "names, jsonVersion, progress (progress: presence of frames on stderr + identical stdout); every sequence "
                       "of length 2 and 3 over {--threshold=x, --verbose, --no-verbose, --critical, -v} == its last element; "
                       "documented equivalent spellings; configuration supplied at command (GIT_CONFIG_COUNT), "
                       "GIT_CONFIG_PARAMETERS, global, local and per-worktree scope (linked worktree with extensions.worktreeConfig, a conflicting "
                       "entry in the main worktree's config.worktree). Oracle: byte-identical stdout and equal exit status. "
                       "distinct = distinct (pair, scope).")
    shutil.rmtree(d, ignore_errors=True)
