#!/usr/bin/env python3
"""Regenerates /verif/MANIFEST.json from the table below (kept in one place so that it stays valid)."""
import json
import os

VERIF = os.path.dirname(os.path.dirname(os.path.abspath(__file__)))

CHECKS = {
    "C01": dict(cat="exploration", tech="differential runtime monitor: real binary vs independent reference model on generated repositories",
                text="Runs the real binary on generated repositories (hundreds quick / thousands thorough) with varied root selections and compares the 8 census numbers with an independent big-integer reference model of the reachable set; holds on the executions listed in the evidence, nothing more.",
                note="trusted: python generator + reference model (cross-checked against git cat-file on every case), git 2.39.5, JSON parser", ref="4 C01"),
    "C02": dict(cat="exploration", tech="differential runtime monitor vs reference model; listing order perturbed by git shim",
                text="Same campaign; the four per-object maxima are compared with the model's maxima, with the maximal object met at varying listing positions (shim permute mode).",
                note="trusted: generator + reference model, git 2.39.5", ref="4 C02"),
    "C03": dict(cat="exploration", tech="differential runtime monitor vs DP on generated commit DAGs / tag forests under adversarial timestamps",
                text="DAG shapes x timestamp profiles x tag forests; depth numbers compared with a DP on the model; panics are violations.",
                note="trusted: generator + reference model, git 2.39.5 --date-order", ref="4 C03"),
    "C04": dict(cat="exploration", tech="differential runtime monitor vs memoised big-integer tree expansion",
                text="Tree DAGs with sharing, every entry kind and hostile names; the seven checkout numbers compared with the reference expansion, each dimension on its own.",
                note="trusted: generator + reference model", ref="4 C04"),
    "C05": dict(cat="exploration", tech="runtime assertion of min(true,cap) on real counter code: boundary+random+width-narrowed exhaustive arithmetic, synthetic renderings, cap-straddling repositories, CPU-time and processed-tree monitors",
                text="Three layers on the real code: arithmetic (boundary x boundary judged by python big ints, 10^6-10^8 random pairs/compositions vs a math/bits reference, all operand pairs of a go/ast width-narrowed copy), rendering of saturated fields for 8 thresholds, and generated repositories whose true values straddle 2^32 and 2^64 (bombs, >=4GiB declared-size blobs); linear time restated as trees-processed == distinct trees and CPU time <= 50x control under RLIMIT_CPU.",
                note="trusted: python big-int oracle, math/bits reference; declared-size loose blobs stand in for real >4GiB blobs; narrowed-copy result is about a derived copy", ref="4 C05"),
    "C06": dict(cat="exploration", tech="bounded-exhaustive option folds on the real CLI vs a selection model; differential match relation via public filter API",
                text="Every selection-option sequence up to length 2 (quick) / 3 over a 16-option sub-alphabet (thorough) on two reference sets, plus random sequences up to length 8: '+' marks of --show-refs vs the last-match model; git.PrefixFilter/RegexpFilter vs startswith-at-boundary / re.fullmatch.",
                note="trusted: selection model (vf/select.py); regexps restricted to the RE2/python common subset", ref="4 C06"),
    "C07": dict(cat="exploration", tech="differential runtime monitor: tallies in JSON v1/v2 and table vs recursive tally model on generated refgroup forests",
                text="Generated refgroup hierarchies (nesting to 20, implicit parents, unions, hostile symbols) x reference sets x selections x 3 output formats; every failure to produce a report is a violation.",
                note="trusted: tally model; git config --list -z as ground truth of the configuration", ref="4 C07"),
    "C08": dict(cat="exploration", tech="runtime monitor with git rev-parse as judge + witness-set oracle; listing order perturbed by git shim",
                text="For every cited object (JSON v1 and table footnotes, raw bytes): reachable, right kind, member of the model's witness set, description resolves via git rev-parse to exactly that oid; --names=hash/none clauses; exotic root kinds emphasised.",
                note="trusted: git rev-parse as the judge of resolvability; reference model witness sets", ref="4 C08"),
    "C12": dict(cat="exploration", tech="runtime assertion of rounding/prefix/monotonicity clauses with two independent exact-arithmetic references",
                text="FormatNumber on exhaustive neighbourhoods of all prefix boundaries / precision switches / band-edge ties plus 2*10^6 (quick) / 10^8 (thorough) stratified random values; every clause judged in integer arithmetic (Go math/big), boundary set re-judged by python Fractions.",
                note="trusted: the two reference implementations", ref="4 C12"),
    "C15": dict(cat="exploration", tech="differential runtime monitor: Repository.GetConfig and CLI tallies vs NUL-first parse of git config --list -z",
                text="Generated configurations across system/global/local/worktree/include/command scopes with value-less, empty, multi-line and hostile values; API result and CLI tallies compared with what git itself reports.",
                note="trusted: git config --list -z output parsed NUL-first; for value-less refgroup keys empty value or omission both accepted", ref="4 C15"),
    "C09": dict(cat="exploration", tech="metamorphic runtime monitor: permuted delivery orders through the public Graph API (exhaustive for small models, also under -race) and CLI runs across layouts / root orders / legal listing orders from the git shim",
                text="Every permutation of <=7 trees and <=6 tags and every topological commit order of small models through sizes.Graph, plus CLI variants (5 storage layouts, shuffled ROOTs, permuted ref names, 4 timestamp profiles, 8-20 shim-permuted listings): all numeric results must coincide and equal the reference model.",
                note="only delivery orders the program can meet in production are explored; shim log proves which listing orders were delivered", ref="4 C09"),
    "C10": dict(cat="fault_enumeration", tech="fault injection at the process boundary (git shim truncation/kill plans from a record pass, object removal, strace ENOSPC) with an all-or-nothing monitor on exit status / stdout / stderr and a deadlock-witness watchdog",
                text="Enumerates, for every git invocation of recorded runs, truncation points x terminations (exit 2/128, SIGKILL/TERM/SEGV), failing before exec and dying with unread stdin; every object removed in turn; shallow/absent/corrupt repositories; invalid options, ROOTs and config values; output write faults. Exit 0 requires the byte-identical fault-free report; non-zero requires no report on stdout and a message on stderr.",
                note="the shim adds no behaviour a real git could not show; delivered faults are proven by the shim log; panics (exit 2 + trace) are counted, not raised", ref="4 C10"),
    "C11": dict(cat="exploration", tech="cross-format consistency monitor (table vs JSON v1 vs JSON v2) on synthetic HistorySize vectors through the real renderers and on generated 'concerning' repositories",
                text="Row visibility iff ratio >= threshold or saturated, marker = floor(ratio) stars / '!' beyond 30, table value a correct rendering of the JSON value, v2 fields consistent, monotone in threshold, --verbose shows all, single no-problems line, no empty section.",
                note="exact rationals, with the IEEE result accepted exactly at the float boundary", ref="4 C11"),
    "C13": dict(cat="exploration", tech="metamorphic runtime monitor: byte-identical reports across 11 addressing modes; stored-graph oracle with replace refs and grafts present (git's own replaced view as control); shallow refusal",
                text="Generated repositories addressed 11 ways must give identical stdout; with refs/replace and info/grafts present the numbers must equal the reference model of the stored objects; shallow repositories must be refused.",
                note="git worktree add / clone are run before the observations", ref="4 C13"),
    "C14": dict(cat="exploration", tech="metamorphic pairs (config vs option, option overrides config, last-wins sequences, equivalent spellings) with byte-identical stdout oracle",
                text="Pairs over threshold/names/jsonVersion/progress families, all length-2/3 sequences of the threshold flags, documented spellings; configuration supplied at command, parameters, global and local scope.",
                note="oracle is byte equality of stdout and equal exit status (stderr deprecation warnings ignored)", ref="4 C14"),
    "C16": dict(cat="exploration", tech="differential parsing against the generator's model + coverage-guided native Go fuzzing with in-target oracles",
                text="Generated tree/commit/tag bodies (hostile names, gpgsig/mergetag continuation lines, header-like messages) must parse to exactly the model; every truncation of real listing lines gives result or error; 6 fuzz targets (no panic, termination, sub-slice, agreement with a reference parser on well-formed input).",
                note="fuzzer PRNG not seedable; budgets are execution counts", ref="4 C16"),
    "C17": dict(cat="exploration", tech="syscall monitor (strace write-intent inside the repository) + before/after manifest; Go race detector and byte-identical stdout over varied GOMAXPROCS / taskset / shim-delayed children",
                text="Read-only by manifest (mtime_ns, SHA-256) and by strace; determinism of stdout for 3 formats +-progress over the -race build under varied schedules; race log must be empty.",
                note="race detector cannot see races ordered only through the external git process; schedules are sampled", ref="4 C17"),
    "C18": dict(cat="exploration", tech="trace monitor over recorded meter writes (frame grammar, monotonic counts, exactly-once final frame, no stale tick) under -race; CLI final frames vs census behind a delaying shim",
                text="Real meter with a recording writer over 160 (quick) / 4000 scenarios of phases, micro-delays and zero gaps; CLI: progress never changes stdout, final frames equal the JSON census, monotone counts, no frame after a phase's final frame.",
                note="ticks are guaranteed by periods of 1us-5ms (API) and by shim delays of several 100 ms periods (CLI)", ref="4 C18"),
    "C19": dict(cat="exploration", tech="runtime monitor on raw output bytes: strict UTF-8/JSON validity + model-derived key sets; footnote discipline of the table for hostile names",
                text="Hostile file/reference/refgroup/ROOT names; JSON v1/v2 valid with the expected key sets; table citations/footnotes one-to-one, numbered in order of first citation, identical texts shared.",
                note="known finding: LF + citation-shaped text inside a cited path (conflicts with C08 if escaped)", ref="4 C19"),
}

EXTRA = {
    "C01": " Also: repositories at scale (tens of thousands of commits, thousands of references, promisor layout), random option sequences, deterministic per-child fault sweeps (exit 0 must mean the fault-free report) and library scans with paused progress-meter / grouper callbacks.",
    "C02": " Also: reference counts around batch boundaries (255-4100) with the last-listed references the only way to each maximum behind a slow listing consumer, scale / promisor / duplicate-parent repositories, late-starting and burst-delivering children, fault sweeps, library scans with paused callbacks.",
    "C03": " Also: objects that vanish while the scan runs (concurrent prune), stalled stderr readers on many-reference repositories, library scans with paused callbacks.",
    "C04": " Also: directories of 127-65537 subdirectory entries (as subdirectory and as root), library scans with paused callbacks incl. one long pause over thousands of small objects, runs of 33-70 KB objects, fault sweeps.",
    "C05": " Also: a 65536 x 65536 bomb with the second pass delivered in one burst, generic fault probes and sweeps.",
    "C06": " Also: thousands of references behind stalled stderr readers, Unicode-space names, match-nothing patterns, fault sweeps.",
    "C07": " Also: 10^5 unwalked and thousands of walked references in all three formats, ROOTs aliasing references, regexps with prefix alternatives / lazy quantifiers, fault sweeps.",
    "C08": " Also: per-worktree ROOT names inside a linked worktree, burst-delivering children over runs of large objects, cuts inside the last record of the batch stream.",
    "C09": " Also: promisor layouts, wide directories (255-700 subtree entries), bursts of 64 unique ROOTs, deterministic fault sweep.",
    "C10": " Also: refgroup-configured targets, lingering failures (status seconds after end of output), objects vanishing mid-run, stdout limited by a sealed memory file at every line boundary, EAGAIN on a non-blocking pipe, cases repeated with --cpuprofile / --show-refs.",
    "C11": " Also: many walked references behind a stalled stderr pipe, fault sweeps.",
    "C12": " Also: in-table renderings of 64-bit tie-adjacent values, first-use rounds on pristine formatter copies (8 goroutines released together), tables through a pipe switched to non-blocking.",
    "C13": " Also: replace references switched on by the caller (git -c, GIT_CONFIG_PARAMETERS, GIT_CONFIG_COUNT), object store named by the environment, decoy repository as working directory with discovery faults, shallow repositories under every addressing mode and behind a slow git-path child, reference-less repositories, a path containing a line feed, core.useReplaceRefs spelled out in the config.",
    "C14": " Also: mixed-case and case-differing refgroup names in the equivalent-spelling pairs, per-worktree configuration scope, late-answering config lookups, fault sweeps over the config children.",
    "C15": " Also: configuration listing cut at entry boundaries, case-differing groups, string-prefix rule values, ten expensive groups repeated under every processor count.",
    "C16": " Also: end-to-end stage on the real batch stream (under -race), truncated listings with a monitor on what is passed on to cat-file (shim keeps a copy of the children's stdin), 2*10^4 concurrent parses with unseen type words, interleaved tree iterations.",
    "C17": " Also: presentation settings from gitconfig behind config lookups answering 2.6 s late, long histories (30k-400k commits), thousands of references, huge directories, degenerate scans, failing runs repeated, runs of large objects - all under both builds.",
    "C18": " Also: presentation settings from gitconfig with the progress switch given both ways, frames of runs with failing children, totals received by a caller-supplied meter with pausing callbacks, fault sweeps.",
    "C19": " Also: stdout limited at every line boundary, injected git faults (exit 0 => well-formed), several renderings of one result kept and re-validated (library use), escape look-alike names.",
}
for _k, _v in EXTRA.items():
    CHECKS[_k]["text"] += _v

NOT_APPLICABLE = {
}


def main():
    checks = []
    for pid in sorted(CHECKS):
        c = CHECKS[pid]
        checks.append({
            "property_id": pid,
            "quick_cmd": "./check %s --tier quick" % pid,
            "thorough_cmd": "./check %s --tier thorough" % pid,
            "evidence_file": "/verif/evidence/%s.json" % pid,
            "replay_cmd_template": "./check %s --replay {path}" % pid,
            "engine": "vf",
            "level_claimed": {"category": c["cat"], "text": c["text"], "design_ref": "DESIGN.md section " + c["ref"]},
            "level_note": c["note"],
            "technique": c["tech"],
        })
    props = [json.loads(l)["id"] for l in open(os.path.join(VERIF, "properties.jsonl"))]
    na = []
    for pid in props:
        if pid not in CHECKS:
            na.append({"property_id": pid, "reason": NOT_APPLICABLE.get(pid, "check not built yet (work in progress); not claimed")})
    m = {
        "version": 1,
        "setup_cmd": "./setup.sh",
        "hooks": {
            "guard": "verif",
            "enable": "go build -tags verif (checks build /repo's working tree into /verif/build/<pid>/ with this tag)",
            "baseline_off_cmd": "cd /repo && go test -mod=mod -json -vet=off -count=1 -timeout 25m ./...",
            "source_commits": [],
            "add_only": True,
        },
        "engines": [
            {"name": "vf", "path": "/verif/vf", "serves_properties": sorted(CHECKS),
             "kind_free_text": "python orchestrator: repository generator + reference model + output parsers + monitors; Go driver (harness/) linking the real packages (incl. library scans with pausing callbacks, concurrent parsers/formatters); git shim (shim/) for record/delay/burst/fault/linger/unlink/permute injection and stdin copies; Go race detector; strace; sealed memfd / non-blocking / slow pipes on stdout and stderr"},
        ],
        "checks": checks,
        "not_applicable": na,
        "notes": "All verdicts are about the executions listed in evidence/*.json (runtime monitoring). Exit 3 = inconclusive (machinery failure), never used for property verdicts.",
    }
    with open(os.path.join(VERIF, "MANIFEST.json"), "w") as f:
        json.dump(m, f, indent=1)
        f.write("\n")


if __name__ == "__main__":
    main()
