#!/bin/bash
# usage: selftest/verify_mutant.sh <patch-file>
# Confirms that a seeded change applies to /repo's HEAD, compiles and keeps the 53 baseline tests green
# (scratch worktree under /tmp, removed afterwards).
set -u
patch=$(readlink -f "$1")
wt=$(mktemp -d /tmp/vm-XXXXXX); rmdir "$wt"
git -C /repo worktree add -q --detach "$wt" HEAD || exit 9
trap 'git -C /repo worktree remove --force "$wt" >/dev/null 2>&1; rm -rf "$wt"' EXIT
git -C "$wt" apply "$patch" || { echo "PATCH DOES NOT APPLY"; exit 8; }
export GOFLAGS=-mod=mod GOPROXY=off GOSUMDB=off GOTOOLCHAIN=local
(cd "$wt" && go build ./... && go vet ./... >/dev/null 2>&1; true)
(cd "$wt" && go build ./...) || { echo "DOES NOT BUILD"; exit 7; }
VERIF_REPO="$wt" /verif/tools/baseline.py
