package main

import (
	"math"
	"math/big"
	"math/rand"
	"sort"
	"strconv"
	"strings"
	"sync"

	"github.com/github/git-sizer/counts"
)

// humanEval: {"n": uint64, "h": "metric"|"binary", "unit": "B"} -> numeral, unit
func humanEval(id interface{}, c rawCase) map[string]interface{} {
	n := getU64(c, "n")
	h := counts.Metric
	if getStr(c, "h") == "binary" {
		h = counts.Binary
	}
	unit := getStr(c, "unit")
	num, us := h.FormatNumber(n, unit)
	res := map[string]interface{}{"numeral": num, "unit": us, "name": h.Name()}
	if getInt(c, "fmt32") == 1 {
		a, b := h.Format(counts.NewCount32(n), unit)
		res["f32"] = []string{a, b}
	}
	if getInt(c, "fmt64") == 1 {
		a, b := h.Format(counts.NewCount64(n), unit)
		res["f64"] = []string{a, b}
	}
	return res
}

// ---- integer-only reference ------------------------------------------------

var metricNames = []string{"", "k", "M", "G", "T", "P"}
var binaryNames = []string{"", "Ki", "Mi", "Gi", "Ti", "Pi"}

func prefixTable(binary bool) ([]string, []*big.Int) {
	names := metricNames
	base := int64(1000)
	if binary {
		names = binaryNames
		base = 1024
	}
	ms := make([]*big.Int, len(names))
	m := big.NewInt(1)
	for i := range names {
		ms[i] = new(big.Int).Set(m)
		m = new(big.Int).Mul(m, big.NewInt(base))
	}
	return names, ms
}

type rendered struct {
	// magnitude = num * mult / 10^q
	num  *big.Int
	q    int
	mult *big.Int
}

func (r rendered) cmp(o rendered) int {
	// r.num*r.mult*10^o.q  vs  o.num*o.mult*10^r.q
	a := new(big.Int).Mul(r.num, r.mult)
	a.Mul(a, pow10(o.q))
	b := new(big.Int).Mul(o.num, o.mult)
	b.Mul(b, pow10(r.q))
	return a.Cmp(b)
}

func pow10(q int) *big.Int {
	return new(big.Int).Exp(big.NewInt(10), big.NewInt(int64(q)), nil)
}

type humanViolation struct {
	N       uint64 `json:"n"`
	H       string `json:"h"`
	Numeral string `json:"numeral"`
	Unit    string `json:"unit"`
	Clause  string `json:"clause"`
	// for the rounding clause: excess over half a unit, as a fraction of n (numerator/denominator strings)
	ExcessNum string `json:"excess_num,omitempty"`
	ExcessDen string `json:"excess_den,omitempty"`
	// true iff excess/n <= 2^-51
	FloatNoise bool `json:"float_noise,omitempty"`
}

// judge checks the clauses of C12 on one rendering; returns violations and the rendered magnitude.
func judge(n uint64, binary bool, numeral, unitStr, unit string) ([]humanViolation, *rendered) {
	names, mults := prefixTable(binary)
	hname := "metric"
	if binary {
		hname = "binary"
	}
	var vs []humanViolation
	bad := func(clause string) {
		vs = append(vs, humanViolation{N: n, H: hname, Numeral: numeral, Unit: unitStr, Clause: clause})
	}
	bn := new(big.Int).SetUint64(n)
	// expected prefix: largest with mult <= n (index 0 if n == 0)
	want := 0
	for i := range mults {
		if mults[i].Cmp(bn) <= 0 {
			want = i
		}
	}
	if !strings.HasSuffix(unitStr, unit) {
		bad("unit-suffix")
		return vs, nil
	}
	pname := unitStr[:len(unitStr)-len(unit)]
	got := -1
	for i, nm := range names {
		if nm == pname {
			got = i
		}
	}
	if got == -1 {
		bad("unknown-prefix")
		return vs, nil
	}
	if got != want {
		bad("prefix-not-largest")
	}
	// numeral syntax
	if len(numeral) == 0 || len(numeral) > 5 {
		bad("numeral-length")
	}
	intPart, frac := numeral, ""
	if i := strings.IndexByte(numeral, '.'); i >= 0 {
		intPart, frac = numeral[:i], numeral[i+1:]
		if frac == "" {
			bad("numeral-syntax")
			return vs, nil
		}
	}
	digits := intPart + frac
	if intPart == "" || strings.Trim(digits, "0123456789") != "" || (len(intPart) > 1 && intPart[0] == '0') {
		bad("numeral-syntax")
		return vs, nil
	}
	num, _ := new(big.Int).SetString(digits, 10)
	q := len(frac)
	r := &rendered{num: num, q: q, mult: mults[got]}
	if got == 0 {
		if numeral != strconv.FormatUint(n, 10) {
			bad("not-exact-below-first-prefix")
		}
		return vs, r
	}
	if len(digits) < 3 {
		bad("fewer-than-3-significant-digits")
	}
	// 2*|num*mult - n*10^q| <= mult
	a := new(big.Int).Mul(num, mults[got])
	b := new(big.Int).Mul(bn, pow10(q))
	d := new(big.Int).Sub(a, b)
	d.Abs(d)
	d.Lsh(d, 1)
	if d.Cmp(mults[got]) > 0 {
		// excess (in units of the value) = (d - mult) / (2*10^q)
		ex := new(big.Int).Sub(d, mults[got])
		den := new(big.Int).Lsh(pow10(q), 1)
		v := humanViolation{N: n, H: hname, Numeral: numeral, Unit: unitStr, Clause: "rounding-error-exceeds-half-unit",
			ExcessNum: ex.String(), ExcessDen: den.String()}
		// float noise iff ex/den <= n / 2^51  <=>  ex * 2^51 <= n * den
		l := new(big.Int).Lsh(ex, 51)
		rr := new(big.Int).Mul(bn, den)
		v.FloatNoise = l.Cmp(rr) <= 0
		vs = append(vs, v)
	}
	return vs, r
}

type humanStats struct {
	Evaluations   int              `json:"evaluations"`
	Distinct      int              `json:"distinct"`
	Ties          int              `json:"ties"`
	Boundary      int              `json:"boundary"`
	MonotonePairs int              `json:"monotone_pairs"`
	Violations    []humanViolation `json:"violations"`
	NoiseCount    int              `json:"float_noise_violations"`
	Samples       []interface{}    `json:"samples"`
	PerPrefix     map[string]int   `json:"per_prefix"`
	// number of goroutines that were formatting concurrently
	ConcurrentJudges int `json:"concurrent_judges"`
	// first-use rounds: a fresh copy of the formatter entered by several goroutines at the same moment
	FirstUseRounds int `json:"first_use_rounds"`
}

func humanCheckSorted(vals []uint64, binary bool, st *humanStats) {
	// the package-level formatters themselves (not copies): concurrent callers share whatever state they have
	h := &counts.Metric
	hn := "metric"
	if binary {
		h = &counts.Binary
		hn = "binary"
	}
	var prev *rendered
	var prevN uint64
	var prevS string
	for i, n := range vals {
		if i > 0 && n == vals[i-1] {
			continue
		}
		num, us := h.FormatNumber(n, "B")
		st.Evaluations++
		st.Distinct++
		st.PerPrefix[hn+":"+us]++
		vs, r := judge(n, binary, num, us, "B")
		for _, v := range vs {
			if v.FloatNoise {
				st.NoiseCount++
				if st.NoiseCount > 20 {
					continue
				}
			}
			if len(st.Violations) < 200 {
				st.Violations = append(st.Violations, v)
			}
		}
		if r != nil && prev != nil {
			st.MonotonePairs++
			if prev.cmp(*r) > 0 {
				if len(st.Violations) < 200 {
					st.Violations = append(st.Violations, humanViolation{N: n, H: hn, Numeral: num, Unit: us,
						Clause: "not-monotone: " + strconv.FormatUint(prevN, 10) + " -> " + prevS})
				}
			}
		}
		if r != nil {
			prev, prevN, prevS = r, n, num+" "+us
		}
		if len(st.Samples) < 12 && i%(len(vals)/12+1) == 0 {
			st.Samples = append(st.Samples, []interface{}{hn, n, num, us})
		}
	}
}

// firstUse: whatever a formatter sets up lazily is set up by its first callers; here the first callers of a fresh copy are
// several goroutines released together.  Each rendering is judged like any other.
// copies taken before anything was formatted: whatever the formatters build on first use is not built yet in these
var pristineMetric, pristineBinary = counts.Metric, counts.Binary

func firstUse(st *humanStats, rng *rand.Rand) {
	rounds := 30000
	vals := []uint64{5000000, 3 << 30, 9870000000000000, 1023, 1024, 999999, 1 << 40, 12345678901, 7, 1000, 18446744073709551615}
	for r := 0; r < rounds; r++ {
		binary := r%2 == 1
		hv := pristineMetric
		if binary {
			hv = pristineBinary
		}
		h := &hv
		const g = 8
		var start, done sync.WaitGroup
		start.Add(1)
		type res struct {
			n       uint64
			num, us string
		}
		out := make([]res, g)
		for k := 0; k < g; k++ {
			n := vals[(r*g+k+int(rng.Int63n(3)))%len(vals)]
			done.Add(1)
			go func(k int, n uint64) {
				defer done.Done()
				start.Wait()
				num, us := h.FormatNumber(n, "B")
				out[k] = res{n, num, us}
			}(k, n)
		}
		start.Done()
		done.Wait()
		for _, o := range out {
			st.Evaluations++
			vs, _ := judge(o.n, binary, o.num, o.us, "B")
			for _, v := range vs {
				if v.FloatNoise {
					continue
				}
				v.Clause = "first-use-by-several-goroutines/" + v.Clause
				if len(st.Violations) < 200 {
					st.Violations = append(st.Violations, v)
				}
			}
		}
	}
	st.FirstUseRounds = rounds
}

// humanBulk: apidrv human-bulk <seed> <nrandom>
func humanBulk(args []string) {
	seed, _ := strconv.ParseInt(args[0], 10, 64)
	nrand, _ := strconv.Atoi(args[1])
	rng := rand.New(rand.NewSource(seed))
	st := &humanStats{PerPrefix: map[string]int{}}
	for _, binary := range []bool{false, true} {
		_, mults := prefixTable(binary)
		var vals []uint64
		addN := func(b *big.Int) {
			if b.Sign() >= 0 && b.IsUint64() {
				vals = append(vals, b.Uint64())
			}
		}
		around := func(b *big.Int, w int64) {
			for d := -w; d <= w; d++ {
				addN(new(big.Int).Add(b, big.NewInt(d)))
			}
		}
		// prefix boundaries, precision switches
		for _, m := range mults {
			for _, k := range []int64{1, 10, 100, 1000, 1024} {
				around(new(big.Int).Mul(m, big.NewInt(k)), 64)
				st.Boundary += 129
			}
		}
		for k := uint(0); k < 64; k++ {
			around(new(big.Int).Lsh(big.NewInt(1), k), 2)
		}
		around(new(big.Int).SetUint64(math.MaxUint64), 64)
		around(new(big.Int).SetUint64(math.MaxUint32), 64)
		around(new(big.Int).SetUint64(1<<53), 64)
		// rounding ties: (m + 1/2) * unit for every precision band
		for _, m := range mults[1:] {
			type band struct{ lo, hi, scale int64 } // mantissa in [lo,hi), scale digits
			for _, bd := range []band{{100, 1000, 100}, {100, 1000, 10}, {100, 18447, 1}} {
				// numeral = j/scale, tie at (j+1/2)/scale * m  = (2j+1)*m/(2*scale)
				pick := func(j int64) {
					t := new(big.Int).Mul(big.NewInt(2*j+1), m)
					t.Div(t, big.NewInt(2*bd.scale))
					around(t, 2)
					st.Ties++
				}
				var lo, hi int64
				switch bd.scale {
				case 100:
					lo, hi = 100, 1000 // 1.00 .. 9.99
				case 10:
					lo, hi = 100, 1000 // 10.0 .. 99.9
				default:
					lo, hi = 100, bd.hi // 100 .. 1023/18446
				}
				for j := lo; j < lo+8 && j < hi; j++ {
					pick(j)
				}
				for j := hi - 8; j < hi+2; j++ {
					pick(j)
				}
				for i := 0; i < 1000; i++ {
					pick(lo + rng.Int63n(hi-lo))
				}
			}
		}
		// stratified random: log-uniform and mantissa-uniform
		for i := 0; i < nrand/2; i++ {
			k := uint(rng.Intn(64))
			vals = append(vals, rng.Uint64()>>k)
		}
		for i := 0; i < nrand/2; i++ {
			m := mults[rng.Intn(len(mults))]
			mant := rng.Int63n(1100000) // up to 1100.000
			t := new(big.Int).Mul(big.NewInt(mant), m)
			t.Div(t, big.NewInt(1000))
			t.Add(t, big.NewInt(rng.Int63n(7)-3))
			addN(t)
		}
		// process in sorted batches of <= 2e6
		const batch = 2000000
		sort.Slice(vals, func(i, j int) bool { return vals[i] < vals[j] })
		// thin into interleaved sub-lists so that every batch spans the whole range
		nb := (len(vals) + batch - 1) / batch
		if nb < 4 {
			nb = 4
		}
		// the sub-lists are judged by concurrent goroutines: the formatter is a pure function and must stay correct
		// when several callers are inside it at once
		var wg sync.WaitGroup
		parts := make([]*humanStats, nb)
		for b := 0; b < nb; b++ {
			sub := make([]uint64, 0, len(vals)/nb+1)
			for i := b; i < len(vals); i += nb {
				sub = append(sub, vals[i])
			}
			parts[b] = &humanStats{PerPrefix: map[string]int{}}
			wg.Add(1)
			go func(sub []uint64, ps *humanStats) {
				defer wg.Done()
				humanCheckSorted(sub, binary, ps)
			}(sub, parts[b])
		}
		wg.Wait()
		for _, ps := range parts {
			st.Evaluations += ps.Evaluations
			st.Distinct += ps.Distinct
			st.MonotonePairs += ps.MonotonePairs
			st.NoiseCount += ps.NoiseCount
			for k, v := range ps.PerPrefix {
				st.PerPrefix[k] += v
			}
			for _, v := range ps.Violations {
				if len(st.Violations) < 200 {
					st.Violations = append(st.Violations, v)
				}
			}
			if len(st.Samples) < 12 {
				st.Samples = append(st.Samples, ps.Samples...)
			}
		}
		st.ConcurrentJudges = nb
	}
	firstUse(st, rng)
	emit(st)
}
