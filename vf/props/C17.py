"""C17 Scanning is read-only, deterministic and race-free."""
import hashlib
import os
import random
import re
import shutil
import subprocess

from .. import gen as G
from .. import run as R

LEVEL = "exploration"


def manifest(root):
    out = {}
    for dp, dns, fns in os.walk(root):
        for n in dns + fns:
            p = os.path.join(dp, n)
            st = os.lstat(p)
            rel = os.path.relpath(p, root)
            if os.path.islink(p):
                out[rel] = ("l", oct(st.st_mode), os.readlink(p), st.st_mtime_ns)
            elif os.path.isdir(p):
                out[rel] = ("d", oct(st.st_mode), st.st_mtime_ns)
            else:
                with open(p, "rb") as f:
                    h = hashlib.sha256(f.read()).hexdigest()
                out[rel] = ("f", oct(st.st_mode), st.st_size, st.st_mtime_ns, h)
    return out


WRITE_CALLS = ("creat", "unlink", "unlinkat", "rename", "renameat", "renameat2", "mkdir", "mkdirat", "rmdir", "link", "linkat",
               "symlink", "symlinkat", "chmod", "fchmodat", "chown", "fchownat", "lchown", "utimensat", "utime", "utimes",
               "truncate", "mknod", "mknodat")
TRACE = "openat,open," + ",".join(WRITE_CALLS)
LINE = re.compile(r"^(\d+)\s+(\w+)\((.*)\)\s+=\s+(-?\d+|\?)")


def strace_violations(log, repo_root):
    """Every call with write intent whose path lies inside the repository (even if it failed or was undone)."""
    bad = []
    seen = {}
    nlines = 0
    with open(log, errors="replace") as f:
        for line in f:
            m = LINE.match(line)
            if not m:
                continue
            nlines += 1
            call, args = m.group(2), m.group(3)
            seen[call] = seen.get(call, 0) + 1
            paths = re.findall(r'"((?:[^"\\]|\\.)*)"', args)
            if call in ("open", "openat"):
                if not re.search(r"O_WRONLY|O_RDWR|O_CREAT|O_TRUNC|O_APPEND|O_TMPFILE", args):
                    continue
            elif call == "utimensat" and not paths:
                continue
            for p in paths:
                inside = (not p.startswith("/")) or p == repo_root or p.startswith(repo_root + "/")
                if inside and p not in ("/dev/null",):
                    bad.append(line.strip()[:240])
                    break
    return bad, seen, nlines


def race_blocks(logdir):
    blocks = []
    if not os.path.isdir(logdir):
        return blocks
    for fn in sorted(os.listdir(logdir)):
        txt = open(os.path.join(logdir, fn), "rb").read().decode(errors="replace")
        for blk in txt.split("==================")[1:]:
            if "WARNING: DATA RACE" in blk:
                blocks.append(blk)
    return blocks


def race_sig(blk):
    fns = re.findall(r"\n  ([A-Za-z0-9_./*()\-]+)\(\)\n\s+(\S+?):\d+", blk)
    mine = [f for f, path in fns if "git-sizer" in f or "/repo/" in path or "go-pipe" in f or "mut-" in path]
    mine = [re.sub(r"\.func\d+(\.\d+)*", ".func", f) for f in mine]
    out = []
    for f in mine:
        if f not in out:
            out.append(f)
    return "+".join(sorted(out[:2])) or "unknown"


def one_repo(arg):
    seed, idx, sz, szrace, shimdir, scratch, nruns = arg
    rng = random.Random("C17|%d|%d" % (seed, idx))
    d = os.path.join(scratch, "r%d" % idx)
    os.makedirs(d)
    out = {"viol": [], "evals": 0, "orderings": set(), "syscalls": {}, "strace_lines": 0, "sample": None, "races": 0,
           "race_runs": 0, "inconc": []}
    try:
        m = G.random_model(rng, size=rng.choice(["small", "medium"]), hostile_names=rng.random() < 0.3)
        if idx % 4 == 1:
            # 30 versions of a 1200-entry directory (each tree ~45 KB) and some 40-70 KB commit messages: large objects
            # that the batch reader delivers back to back
            pool = m.pool
            blobs = [pool.new_blob(3) for _ in range(40)]
            prev = None
            for v in range(30):
                ents = [G.Entry(G.FILE, b"file-%05d-%s" % (j, b"x" * 8), blobs[(j * 7 + v * (j % 5 == 0)) % len(blobs)]) for j in range(1200)]
                big = G.Tree(ents)
                c = G.Commit(G.Tree([G.Entry(G.TREE, b"big", big), G.Entry(G.FILE, b"v", pool.new_blob(v + 1))]),
                             [prev] if prev else [], cts=1500000000 + v, msg=(b"m%d " % v) * (1 + 9000 * (v % 3 == 0)) + b"\n")
                prev = c
            m.refs["refs/heads/bigtrees"] = prev
            # a directory of > 128 KiB whose subdirectories hold the biggest blob, the deepest path and the widest tree: which
            # name the footnotes give them depends on the parent being registered before its subdirectories
            tiny = pool.new_blob(1)
            ents = [G.Entry(G.FILE, b"entry-with-a-rather-long-file-name-%05d.dat" % j, blobs[j % len(blobs)]) for j in range(3300)]
            ents += [G.Entry(G.TREE, b"sub-%04d" % j, G.Tree([G.Entry(G.FILE, b"f%d" % j, tiny)])) for j in range(rng.choice([5, 120, 400]))]
            deep = G.Tree([G.Entry(G.FILE, b"bottom", pool.new_blob(2))])
            for k in range(9):
                deep = G.Tree([G.Entry(G.TREE, b"lvl%d" % k, deep)])
            ents += [G.Entry(G.TREE, b"m", G.Tree([G.Entry(G.FILE, b"big.bin", pool.new_blob(150000))])),
                     G.Entry(G.TREE, b"deep", deep),
                     G.Entry(G.TREE, b"wide", G.Tree([G.Entry(G.FILE, b"w%05d" % j, tiny) for j in range(4000)])),
                     G.Entry(G.TREE, b"zz-links", G.Tree([G.Entry(G.LINK, b"l%d" % j, tiny) for j in range(30)] +
                                                         [G.Entry(G.GITLINK, b"s%d" % j, "%040x" % (j + 1)) for j in range(20)]))]
            m.refs["refs/heads/hugedir"] = G.Commit(G.Tree(ents), [], cts=1500001000, msg=b"huge directory\n")
            # runs of consecutive 33-70 KB objects in the object readers' streams (commits, sibling trees, tags)
            from ..campaign import add_big_runs
            add_big_runs(rng, m, pool)
            if idx % 8 == 1:
                from .C16 import big_tree_model
                bm = big_tree_model(rng, versions=3)
                m.refs["refs/heads/hugetrees"] = bm.refs["refs/heads/main"]
                m.refs["refs/tags/hugetag"] = bm.refs["refs/tags/bigtag"]
        m.bare = False
        # several sibling refgroups (and a nested pair) so that the order of their rows is part of the output
        m.config = "".join('[refgroup "%s"]\n\tinclude = %s\n' % (g, pat) for g, pat in [
            ("zeta", "refs/heads"), ("alpha", "refs/tags"), ("mid", "refs"), ("beta", "refs/remotes"), ("omega", "refs/heads"),
            ("kappa", "refs/notes"), ("mid.one", "refs/heads"), ("mid.two", "refs/tags"), ("mid.three", "refs/remotes")])
        work = os.path.join(d, "repo")
        gitdir = G.write_model(m, work)
        # a work tree file, an index and (sometimes) a linked worktree / packed layout, all before the snapshot
        with open(os.path.join(work, "untracked.txt"), "w") as f:
            f.write("hello\n")
        env = G.git_env()
        if m.commits:
            subprocess.run([G.REAL_GIT, "read-tree", m.commits[0].oid], cwd=work, env=env, stdout=-1, stderr=-1)
            if idx % 3 == 0:
                subprocess.run([G.REAL_GIT, "worktree", "add", "--detach", "--no-checkout", os.path.join(d, "wt"), m.commits[0].oid],
                               cwd=work, env=env, stdout=-1, stderr=-1)
        if idx % 2 == 1:
            subprocess.run([G.REAL_GIT, "repack", "-adq"], cwd=work, env=env, stdout=-1, stderr=-1)
            subprocess.run([G.REAL_GIT, "pack-refs", "--all"], cwd=work, env=env, stdout=-1, stderr=-1)
        # make everything old so that an mtime refresh would be visible
        for dp, dns, fns in os.walk(d):
            for n in dns + fns:
                try:
                    os.utime(os.path.join(dp, n), ns=(10 ** 18, 10 ** 18), follow_symlinks=False)
                except OSError:
                    pass
        before = manifest(d)
        formats = [["--json"], ["--json", "--json-version=2"], ["-v"], []]
        roots = []
        from .. import oracle as O_
        rcommits = [o for o in O_.reachable(list(m.refs.values())).values() if o.kind == "commit"]
        if rcommits and rng.random() < 0.6:
            # several ROOTs, some of them different spellings of the same object (which name is cited must not depend on
            # the order in which the rev-parse children happen to finish)
            c = sorted(rcommits, key=lambda o: -sum(1 for x in m.refs.values() if x is o))[0]
            names = [n for n, o in m.refs.items() if o is c]
            roots = [c.oid] + names[:2] + [c.oid[:12]]
            if len(rcommits) > 1:
                roots.append(rcommits[-1].oid)
            rng.shuffle(roots)
        base = {}
        # with ROOTs: either only the ROOTs are traversed (their spellings are then the only names available for the
        # footnotes) or ROOTs in addition to selected references
        sel = rng.choice([[], [], ["--branches", "--tags", "--remotes"]]) if roots else []
        for fa in formats:
            r = R.sizer(sz, work, fa + ["--no-progress"] + sel + roots, tmpdir=scratch)
            out["evals"] += 1
            if r.rc != 0:
                out["viol"].append(("C17/run-failed", {"argv": fa, "stderr": r.err[-300:]}))
                return out
            base[tuple(fa)] = r.out
        # --- determinism + races: the -race build under varied schedules
        logdir = os.path.join(scratch, "race-%d" % idx)
        os.makedirs(logdir, exist_ok=True)
        for k in range(nruns):
            fa = formats[k % len(formats)]
            argv = fa + sel + roots
            progress = rng.random() < 0.5
            argv = argv + (["--progress"] if progress else ["--no-progress"])
            gmp = rng.choice([1, 2, 3, 8, 16])
            envx = {"GOMAXPROCS": str(gmp), "GORACE": "halt_on_error=0 log_path=%s/race" % logdir}
            rules = []
            mode = rng.choice(["plain", "delay", "delay", "record"])
            if mode == "delay":
                for k2 in range(len(roots)):
                    if rng.random() < 0.5:
                        rules.append({"sig": "rev-parse --verify", "ord": k2, "mode": "delay", "pre_ms": rng.choice([5, 20, 60]),
                                      "exit_ms": rng.choice([0, 15]), "max_ms": 100})
                for sig in ("rev-list", "cat-file --batch-check", "cat-file --batch", "for-each-ref"):
                    if rng.random() < 0.7:
                        rules.append({"sig": sig, "ord": -1, "mode": "delay", "pre_ms": rng.choice([0, 0, 5, 30]),
                                      "chunk": rng.choice([1, 7, 40, 41, 100, 4096]), "chunk_ms": rng.choice([0, 0, 1, 3]),
                                      "exit_ms": rng.choice([0, 0, 10, 40]), "max_ms": 400})
            pdir = os.path.join(d, "plan%d" % k)
            plan = R.make_plan(pdir, rules, record=True)
            cmd = [szrace] + argv
            if rng.random() < 0.3:
                cmd = ["taskset", "-c", rng.choice(["0", "0,1", "3"])] + cmd
            e = R.base_env(envx, shimdir=shimdir)
            e["VERIF_SHIM_PLAN"] = plan
            r = R.run_proc(cmd, work, e, timeout=120, tmpdir=scratch)
            out["evals"] += 1
            out["race_runs"] += 1
            evs = R.read_events(pdir)
            shutil.rmtree(pdir, ignore_errors=True)
            # observed interleaving of the concurrent children: order of (sig, event) by time
            tl = []
            for ev in evs:
                if ev["sig"] in ("rev-list", "cat-file --batch-check", "cat-file --batch", "for-each-ref"):
                    tl += [(ev["t_first_out"], ev["sig"] + ":first-out"), (ev["t_eof"], ev["sig"] + ":eof"), (ev["t_exit"], ev["sig"] + ":exit")]
            out["orderings"].add(tuple(x for _, x in sorted(tl)))
            if r.timed_out:
                out["inconc"].append("watchdog fired in a determinism run")
                continue
            if r.rc != 0:
                if r.rc == 66 or b"DATA RACE" in r.err:
                    pass
                else:
                    out["viol"].append(("C17/determinism/run-failed", {"argv": argv, "rc": r.rc, "stderr": r.err[-300:], "gomaxprocs": gmp}))
                    continue
            if r.out != base[tuple(fa)]:
                out["viol"].append(("C17/determinism/stdout-differs-from-reference-run", {"argv": argv, "gomaxprocs": gmp, "shim": mode,
                                                                                          "first_diff": _first_diff(base[tuple(fa)], r.out)}))
        # --- presentation settings that come from gitconfig, looked up by children that answer very late (cold cache,
        # loaded machine): the answers are still the ones that count, so stdout is the same as with prompt children
        if idx % 3 == 0:
            cfgenv = {"GIT_CONFIG_COUNT": "3", "GIT_CONFIG_KEY_0": "sizer.threshold", "GIT_CONFIG_VALUE_0": "0",
                      "GIT_CONFIG_KEY_1": "sizer.names", "GIT_CONFIG_VALUE_1": "hash",
                      "GIT_CONFIG_KEY_2": "sizer.jsonVersion", "GIT_CONFIG_VALUE_2": "2"}
            for fa in ([], ["--json"]):
                rp = R.sizer(sz, work, fa + ["--no-progress"] + sel + roots, env=cfgenv, tmpdir=scratch)
                key = ["sizer.threshold", "sizer.names", "sizer.jsonVersion"][(idx // 3 + len(fa)) % 3]
                ldir = os.path.join(scratch, "late-%d-%d" % (idx, len(fa)))
                lplan = R.make_plan(ldir,
                                    [{"sig": "config --get " + key, "ord": -1, "mode": "delay", "pre_ms": 2600, "max_ms": 2800}])
                rl = R.sizer(sz, work, fa + ["--no-progress"] + sel + roots, env=cfgenv, shimdir=shimdir, plan=lplan, tmpdir=scratch, timeout=120)
                shutil.rmtree(ldir, ignore_errors=True)
                out["evals"] += 2
                out["late_config_runs"] = out.get("late_config_runs", 0) + 1
                if rl.timed_out:
                    out["inconc"].append("watchdog fired in a late-config run")
                elif rp.rc != rl.rc or rp.out != rl.out:
                    out["viol"].append(("C17/determinism/stdout-differs-when-a-config-lookup-answers-late", {"argv": fa, "late": key, "exit": [rp.rc, rl.rc],
                                                                                                "first_diff": _first_diff(rp.out, rl.out)}))
        blocks = race_blocks(logdir)
        out["races"] = len(blocks)
        seen = set()
        for blk in blocks:
            sig = race_sig(blk)
            if sig not in seen:
                seen.add(sig)
                out["viol"].append(("C17/data-race/" + sig, {"report": blk[:3000]}))
        shutil.rmtree(logdir, ignore_errors=True)
        # --- read-only, syscall monitor
        slog = os.path.join(scratch, "strace-%d.log" % idx)
        for fa in (["--json", "--no-progress"], ["-v", "--progress"]):
            cmd = ["strace", "-f", "-qq", "-o", slog, "-e", "trace=" + TRACE, sz] + fa
            r = R.run_proc(cmd, work, R.base_env(), timeout=120, tmpdir=scratch)
            out["evals"] += 1
            if r.rc != 0:
                out["inconc"].append("strace run failed: %r" % r.err[-200:])
                continue
            bad, seen_calls, nlines = strace_violations(slog, d)
            out["strace_lines"] += nlines
            for c, n in seen_calls.items():
                out["syscalls"][c] = out["syscalls"].get(c, 0) + n
            for line in bad[:3]:
                call = LINE.match(line).group(2)
                out["viol"].append(("C17/read-only/syscall-with-write-intent-inside-repository/" + call, {"argv": fa, "line": line}))
        if os.path.exists(slog):
            os.remove(slog)
        after = manifest(d)
        if after != before:
            changed = [k for k in set(before) | set(after) if before.get(k) != after.get(k)]
            out["viol"].append(("C17/read-only/repository-changed", {"paths": sorted(changed)[:8]}))
        out["sample"] = {"files_in_manifest": len(before), "race_build_runs": out["race_runs"],
                         "distinct_child_event_orderings": len(out["orderings"]), "syscalls_seen": out["syscalls"]}
    finally:
        shutil.rmtree(d, ignore_errors=True)
    out["orderings"] = [list(o) for o in out["orderings"]]
    return out


def _first_diff(a, b):
    for x, y in zip(a.split(b"\n"), b.split(b"\n")):
        if x != y:
            return [x[:140], y[:140]]
    return ["<length>", "%d vs %d" % (len(a), len(b))]


def partial_clone_case(chk, sz, scratch, rng):
    """A partial clone (promisor remote, blobs filtered out): the objects the scan asks about are not all present."""
    d = os.path.join(scratch, "partial")
    os.makedirs(d)
    # (a fixed shape with several blobs, so that the filter always leaves something out)
    pool = G.Pool(rng)
    m = G.Model()
    prev = None
    for i in range(3):
        t = G.Tree([G.Entry(G.FILE, b"file%d" % j, pool.new_blob(50 + 10 * i + j)) for j in range(3)] +
                   [G.Entry(G.TREE, b"dir", G.Tree([G.Entry(G.FILE, b"inner", pool.new_blob(500 + i))]))])
        prev = G.Commit(t, [prev] if prev else [], cts=1500000000 + i, msg=b"c%d\n" % i)
    m.refs["refs/heads/main"] = prev
    m.refs["refs/tags/v1"] = G.Tag(prev, name=b"v1")
    src = G.write_model(m, os.path.join(d, "src.git"))
    env = G.git_env()
    subprocess.run([G.REAL_GIT, "--git-dir", src, "config", "uploadpack.allowfilter", "true"], env=env)
    subprocess.run([G.REAL_GIT, "--git-dir", src, "config", "uploadpack.allowanysha1inwant", "true"], env=env)
    p = subprocess.run([G.REAL_GIT, "clone", "-q", "--bare", "--filter=blob:none", "file://" + src, os.path.join(d, "part.git")], env=env,
                       stdout=subprocess.PIPE, stderr=subprocess.PIPE)
    part = os.path.join(d, "part.git")
    if p.returncode != 0 or "promisor" not in open(os.path.join(part, "config")).read():
        chk.cov["partial_clone_case"] = "not built: %r" % p.stderr[:100]
        return
    for dp, dns, fns in os.walk(part):
        for n in dns + fns:
            os.utime(os.path.join(dp, n), ns=(10 ** 18, 10 ** 18), follow_symlinks=False)
    before = manifest(part)
    r = R.sizer(sz, part, ["--json", "--no-progress"], tmpdir=d, timeout=120)
    chk.count()
    after = manifest(part)
    chk.cov["partial_clone_case"] = {"exit_status": r.rc, "files_before": len(before), "files_after": len(after)}
    if after != before:
        changed = sorted(k for k in set(before) | set(after) if before.get(k) != after.get(k))
        chk.violation("C17/read-only/repository-changed/partial-clone-lazy-fetch",
                      {"paths": changed[:6], "exit_status": r.rc, "note": "git fetches the filtered-out blobs from the promisor remote "
                       "when the scan asks cat-file about them and writes new packs"})
    chk.nontrivial("partial-clone")
    shutil.rmtree(d, ignore_errors=True)


def long_history_model(rng, n, extra_refs=0):
    """A chain of n commits over a handful of shared trees; the maxima sit in old commits that only their own branch or tag
    names directly (so the footnotes depend on matching old commits to trees and references)."""
    pool = G.Pool(rng)
    shared = [G.Tree([G.Entry(G.FILE, b"f%d" % k, pool.new_blob(5 + k))]) for k in range(5)]
    bigblob = G.Blob(b"B" * 70000)
    deep = G.Tree([G.Entry(G.FILE, b"leaf-with-a-long-name-" + b"x" * 40, pool.new_blob(3))])
    for k in range(12):
        deep = G.Tree([G.Entry(G.TREE, b"d%d" % k, deep)])
    wide = G.Tree([G.Entry(G.FILE, b"w%04d" % k, pool.new_blob(2)) for k in range(300)])
    special = {0: G.Tree([G.Entry(G.FILE, b"big.bin", bigblob)]),
               n // 4: G.Tree([G.Entry(G.TREE, b"deep", deep)]),
               n // 2: G.Tree([G.Entry(G.TREE, b"wide", wide), G.Entry(G.FILE, b"x", pool.new_blob(4))])}
    m = G.Model()
    prev = None
    marks = {}
    for i in range(n):
        prev = G.Commit(special.get(i, shared[i % len(shared)]), [prev] if prev else [], cts=1400000000 + i * 60,
                        msg=b"c%d\n" % i if i != n // 3 else b"long message " * 900 + b"\n")
        if i in special or i == n // 3:
            marks[i] = prev
    m.refs["refs/heads/old"] = marks[0]
    m.refs["refs/heads/quarter"] = marks[n // 4]
    m.refs["refs/tags/half"] = G.Tag(marks[n // 2], name=b"half")
    m.refs["refs/remotes/origin/third"] = marks[n // 3]
    m.refs["refs/heads/main"] = prev
    # very many references: the listing of references is then consumed in several pieces
    c = prev
    chain = []
    while c is not None and len(chain) < 4000:
        chain.append(c)
        c = c.parents[0] if c.parents else None
    for i in range(extra_refs):
        m.refs["refs/%s/many/%05d" % (("heads", "tags", "remotes/origin")[i % 3], i)] = chain[(i * 7919) % len(chain)]
    m.meta = {"n": n}
    return m


def long_history_case(chk, sz, szr, scratch, rng, n, nruns, extra_refs=0):
    """Determinism on a long history: thresholds on the number of commits switch code paths that small repositories never take."""
    d = os.path.join(scratch, "longhist-%d-%d" % (n, extra_refs))
    os.makedirs(d)
    label = "long-history" if not extra_refs else "many-references"
    try:
        gitdir = G.write_model(long_history_model(rng, n, extra_refs), os.path.join(d, "long.git"), packed_refs=True)
        subprocess.run([G.REAL_GIT, "--git-dir", gitdir, "repack", "-adq"], env=G.git_env(), stdout=-1, stderr=-1)
        base = {}
        formats = [["-v"], ["--json"], ["--json", "--json-version=2"]]
        if extra_refs:
            formats = [["-v", "--show-refs"], ["--json"], ["--json", "--json-version=2", "--show-refs"]]
        for fa in formats:
            r = R.sizer(sz, gitdir, fa + ["--no-progress"], tmpdir=d, timeout=300)
            chk.count()
            if r.rc != 0:
                chk.violation("C17/%s/run-failed" % label, {"argv": fa, "stderr": r.err[-300:]})
                return
            base[tuple(fa)] = r.out
        logdir = os.path.join(d, "race")
        os.makedirs(logdir)
        differing = 0
        for k in range(nruns):
            fa = formats[0] if k % 3 != 2 else formats[1 + (k // 3) % 2]
            gmp = [16, 1, 4, 2, 8, 3][k % 6]
            binary = szr if (k % 4 == 3 or (extra_refs and k % 2)) else sz
            argv = fa + [rng.choice(["--no-progress", "--no-progress", "--progress"])]
            cmd = [binary] + argv
            if k % 5 == 4:
                cmd = ["taskset", "-c", rng.choice(["0", "1,2"])] + cmd
            e = R.base_env({"GOMAXPROCS": str(gmp), "GORACE": "halt_on_error=0 log_path=%s/race" % logdir})
            r = R.run_proc(cmd, gitdir, e, timeout=600, tmpdir=d)
            chk.count()
            chk.bump("long_history_runs")
            if r.timed_out:
                chk.inconc("watchdog fired in a long-history run")
                continue
            if r.rc != 0 and not (r.rc == 66 or b"DATA RACE" in r.err):
                chk.violation("C17/%s/run-failed" % label, {"argv": argv, "rc": r.rc, "stderr": r.err[-300:], "gomaxprocs": gmp})
                continue
            if r.out != base[tuple(fa)]:
                differing += 1
                chk.violation("C17/determinism/stdout-differs-from-reference-run/" + label,
                              {"argv": argv, "gomaxprocs": gmp, "commits": n, "extra_refs": extra_refs, "race_build": binary == szr,
                               "first_diff": [x.decode("utf-8", "replace") for x in _first_diff(base[tuple(fa)], r.out)]})
        seen = set()
        for blk in race_blocks(logdir):
            sig = race_sig(blk)
            chk.bump("race_reports")
            if sig not in seen:
                seen.add(sig)
                chk.violation("C17/data-race/" + sig, {"report": blk[:3000], "case": label})
        chk.cov.setdefault("long_history_cases", []).append({"commits": n, "references": 5 + extra_refs, "runs": nruns,
                                                             "runs_differing_from_reference": differing})
        chk.nontrivial((label, n))
    finally:
        shutil.rmtree(d, ignore_errors=True)


def degenerate_scans(chk, sz, szr, scratch, rng, nrep):
    """Scans that walk next to nothing (an empty repository, a selection that matches no reference, only blobs as roots, a
    single empty commit): phases with no work at all are where goroutines that normally wait for each other do not."""
    d = os.path.join(scratch, "degenerate")
    os.makedirs(d)
    try:
        pool = G.Pool(rng)
        repos = []
        e = G.Model()
        repos.append(("empty-repository", e, []))
        m1 = G.random_model(rng, size="small", hostile_names=False, noise=False)
        repos.append(("selection-matches-nothing", m1, ["--include=refs/heads/no-such-branch"]))
        repos.append(("no-references-selected", m1, ["--no-branches", "--no-tags", "--no-remotes", "--exclude", "refs"]))
        m2 = G.Model()
        m2.refs["refs/blobs/one"] = pool.new_blob(10)
        m2.refs["refs/tags/blobtag"] = G.Tag(pool.new_blob(20), name=b"blobtag")
        repos.append(("only-blobs-and-tags-of-blobs", m2, []))
        m3 = G.Model()
        m3.refs["refs/heads/main"] = G.Commit(G.Tree([]), [], msg=b"empty\n")
        repos.append(("one-empty-commit", m3, []))
        m4 = G.Model()
        bl = pool.new_blob(30)
        m4.refs["refs/heads/main"] = G.Commit(G.Tree([G.Entry(G.FILE, b"file", bl)]), [], msg=b"c\n")
        repos.append(("blob-root-only", m4, ["refs/heads/main:file"]))
        repos.append(("tree-root-only", m4, ["refs/heads/main^{tree}"]))
        logdir = os.path.join(d, "race")
        os.makedirs(logdir)
        for k, (name, m, extra) in enumerate(repos):
            gitdir = G.write_model(m, os.path.join(d, "r%d" % k))
            base = {}
            for fa in (["--json"], ["-v"]):
                r = R.sizer(sz, gitdir, fa + ["--no-progress"] + extra, tmpdir=d)
                chk.count()
                if r.rc != 0:
                    chk.violation("C17/degenerate/run-failed/" + name, {"argv": fa + extra, "stderr": r.err[-300:].decode("utf-8", "replace")})
                    continue
                base[tuple(fa)] = r.out
            for j in range(nrep):
                fa = [["--json"], ["-v"]][j % 2]
                if tuple(fa) not in base:
                    continue
                env = {"GOMAXPROCS": ["1", "2", "16", "4"][j % 4], "GORACE": "halt_on_error=0 log_path=%s/race" % logdir}
                r = R.sizer(szr, gitdir, fa + [["--no-progress"], ["--progress"]][(j // 2) % 2] + extra, env=env, tmpdir=d)
                chk.count()
                chk.bump("race_build_runs")
                if r.rc not in (0, 66):
                    chk.violation("C17/degenerate/run-failed/" + name, {"argv": fa + extra, "rc": r.rc, "stderr": r.err[-300:].decode("utf-8", "replace")})
                elif r.out != base[tuple(fa)]:
                    chk.violation("C17/determinism/stdout-differs-from-reference-run/degenerate/" + name, {"argv": fa + extra})
            chk.nontrivial(("degenerate", name))
        seen = set()
        for blk in race_blocks(logdir):
            sig = race_sig(blk)
            chk.bump("race_reports")
            if sig not in seen:
                seen.add(sig)
                chk.violation("C17/data-race/" + sig, {"report": blk[:3000], "case": "degenerate scans"})
        chk.cov["degenerate_scans"] = [n for n, _, _ in repos]
    finally:
        shutil.rmtree(d, ignore_errors=True)


def huge_directory_case(chk, sz, szr, scratch, rng, nrep):
    """Several repositories whose only commit has a root directory of > 128 KiB with the cited objects below subdirectories:
    many short runs of both builds at every processor count must print the same bytes."""
    d = os.path.join(scratch, "hugedirs")
    os.makedirs(d)
    try:
        logdir = os.path.join(d, "race")
        os.makedirs(logdir)
        differing = 0
        for k in range(3):
            pool = G.Pool(rng)
            tiny = pool.new_blob(1)
            ents = [G.Entry(G.FILE, b"a-rather-long-file-name-number-%05d-in-a-huge-directory.dat" % j, pool.new_blob(2 + j % 3)) for j in range(2400 + 300 * k)]
            ents += [G.Entry(G.TREE, b"k%03d" % j, G.Tree([G.Entry(G.FILE, b"f%d" % j, tiny)])) for j in range([8, 60, 200][k])]
            deep = G.Tree([G.Entry(G.FILE, b"bottom", pool.new_blob(2))])
            for j in range(7):
                deep = G.Tree([G.Entry(G.TREE, b"l%d" % j, deep)])
            ents += [G.Entry(G.TREE, b"m", G.Tree([G.Entry(G.FILE, b"big.bin", pool.new_blob(90000))])), G.Entry(G.TREE, b"deep", deep),
                     G.Entry(G.TREE, b"wide", G.Tree([G.Entry(G.FILE, b"w%04d" % j, tiny) for j in range(3000)]))]
            m = G.Model()
            m.refs["refs/heads/main"] = G.Commit(G.Tree(ents), [], msg=b"huge\n")
            gitdir = G.write_model(m, os.path.join(d, "h%d" % k))
            r0 = R.sizer(sz, gitdir, ["-v", "--no-progress"], tmpdir=d)
            chk.count()
            if r0.rc != 0:
                chk.violation("C17/huge-directory/run-failed", {"stderr": r0.err[-300:].decode("utf-8", "replace")})
                continue
            for j in range(nrep):
                binary = szr if j % 5 == 4 else sz
                env = {"GOMAXPROCS": ["16", "1", "2", "4", "8", "3"][j % 6], "GORACE": "halt_on_error=0 log_path=%s/race" % logdir}
                r = R.sizer(binary, gitdir, ["-v", "--no-progress"], env=env, tmpdir=d, timeout=120)
                chk.count()
                if r.rc not in (0, 66) or r.timed_out:
                    chk.violation("C17/huge-directory/run-failed", {"rc": r.rc, "stderr": r.err[-300:].decode("utf-8", "replace")})
                elif r.out != r0.out:
                    differing += 1
                    chk.violation("C17/determinism/stdout-differs-from-reference-run/huge-directory",
                                  {"gomaxprocs": env["GOMAXPROCS"], "first_diff": [x.decode("utf-8", "replace") for x in _first_diff(r0.out, r.out)]})
            chk.nontrivial(("hugedir", k))
        seen = set()
        for blk in race_blocks(logdir):
            sig = race_sig(blk)
            chk.bump("race_reports")
            if sig not in seen:
                seen.add(sig)
                chk.violation("C17/data-race/" + sig, {"report": blk[:3000], "case": "huge directory"})
        chk.cov["huge_directory_case"] = {"repositories": 3, "runs_each": nrep, "runs_differing_from_reference": differing}
    finally:
        shutil.rmtree(d, ignore_errors=True)


def failing_runs(chk, sz, szr, shimdir, scratch, rng, nrep):
    """Runs that fail are runs too: with a reference that points at a missing object (git for-each-ref dies), or a git child
    killed at a fixed byte of its output, every repetition - both builds, any processor count - ends the same way with the same
    stdout, and the race detector stays silent."""
    d = os.path.join(scratch, "failing")
    os.makedirs(d)
    try:
        m = G.random_model(rng, size="medium", hostile_names=False, noise=False)
        gitdir = G.write_model(m, os.path.join(d, "repo"))
        broken = os.path.join(d, "broken")
        shutil.copytree(gitdir, broken)
        with open(os.path.join(broken, "refs", "heads", "zz-missing"), "w") as f:
            f.write("%040x\n" % 0xdeadbeef)
        logdir = os.path.join(d, "race")
        os.makedirs(logdir)
        scen = [("reference-to-a-missing-object", broken, None)]
        for sig, after in (("for-each-ref", 90), ("rev-list", 200), ("cat-file --batch-check", 120), ("cat-file --batch", 300), ("for-each-ref", 1 << 40)):
            scen.append(("%s dies after %s bytes" % (sig, "all its" if after > 1 << 30 else after), gitdir,
                         {"sig": sig, "ord": 0, "mode": "fault", "after_bytes": after, "term": "exit:128"}))
        for name, gd, rule in scen:
            seen = {}
            for j in range(nrep):
                binary = szr if j % 2 else sz
                plan = R.make_plan(os.path.join(d, "fp-%d" % j), [rule]) if rule else None
                env = {"GOMAXPROCS": ["1", "2", "4", "8", "16", "3"][j % 6], "GORACE": "halt_on_error=0 log_path=%s/race" % logdir}
                r = R.sizer(binary, gd, ["--json", "--no-progress"], env=env, shimdir=shimdir, plan=plan, tmpdir=d, timeout=60)
                chk.count()
                if plan:
                    shutil.rmtree(os.path.dirname(plan), ignore_errors=True)
                if r.timed_out:
                    chk.inconc("watchdog in a failing-run repetition")
                    continue
                rc = 0 if r.rc in (0, 66) and binary == szr and r.rc == 66 and r.out else r.rc
                key = (0 if r.rc == 0 or (r.rc == 66 and r.out) else 1, r.out)
                seen.setdefault(key, []).append({"gomaxprocs": env["GOMAXPROCS"], "race_build": binary == szr, "exit_status": r.rc})
            if len(seen) > 1:
                chk.violation("C17/determinism/failing-run-ends-differently-from-repetition-to-repetition",
                              {"scenario": name, "outcomes": [{"succeeded": k[0] == 0, "stdout_bytes": len(k[1]), "runs": v[:3]} for k, v in seen.items()]})
            chk.nontrivial(("failing", name))
        seenr = set()
        for blk in race_blocks(logdir):
            sig = race_sig(blk)
            chk.bump("race_reports")
            if sig not in seenr:
                seenr.add(sig)
                chk.violation("C17/data-race/" + sig, {"report": blk[:3000], "case": "failing runs"})
        chk.cov["failing_run_scenarios"] = [n for n, _, _ in scen]
    finally:
        shutil.rmtree(d, ignore_errors=True)


def run(chk, b, tier):
    sz = b.sizer()
    szr = b.sizer(race=True)
    shimdir = b.shimdir()
    scratch = b.scratchdir()
    nrepos = 8 if tier == "quick" else 100
    nruns = 10 if tier == "quick" else 40
    res = R.pmap(one_repo, [(R.SEED, i, sz, szr, shimdir, scratch, nruns) for i in range(nrepos)], nproc=8, chk=chk)
    orderings = set()
    syscalls = {}
    for i, r in enumerate(res):
        chk.count(r["evals"])
        for sig, det in r["viol"]:
            chk.violation(sig, det)
        for m in r["inconc"]:
            chk.inconc(m)
        for o in r["orderings"]:
            orderings.add(tuple(o))
        for c, n in r["syscalls"].items():
            syscalls[c] = syscalls.get(c, 0) + n
        chk.bump("race_build_runs", r["race_runs"])
        chk.bump("runs_with_late_config_lookups", r.get("late_config_runs", 0))
        chk.bump("race_reports", r["races"])
        chk.bump("strace_lines_examined", r["strace_lines"])
        if r["sample"]:
            chk.sample(r["sample"], limit=3)
            chk.nontrivial(("repo", i))
    partial_clone_case(chk, sz, scratch, random.Random("C17p|%d" % R.SEED))
    degenerate_scans(chk, sz, szr, scratch, random.Random("C17d|%d" % R.SEED), 6 if tier == "quick" else 40)
    failing_runs(chk, sz, szr, shimdir, scratch, random.Random("C17f|%d" % R.SEED), 6 if tier == "quick" else 30)
    huge_directory_case(chk, sz, szr, scratch, random.Random("C17h|%d" % R.SEED), 20 if tier == "quick" else 100)
    for n_, k_, xr in ([(30000, 12, 0), (3000, 8, 6500)] if tier == "quick" else
                       [(30000, 24, 0), (120000, 24, 0), (400000, 12, 0), (3000, 40, 6500), (500, 40, 2100), (25000, 20, 30000)]):
        long_history_case(chk, sz, szr, scratch, random.Random("C17l|%d|%d" % (R.SEED, n_)), n_, k_, extra_refs=xr)
    for o in orderings:
        chk.nontrivial(("ordering", o))
    chk.cov["distinct_child_event_orderings_observed"] = len(orderings)
    chk.cov["syscalls_seen"] = syscalls
    if not chk.cov.get("strace_lines_examined"):
        chk.inconc("strace observed nothing")
    chk.cov["rule"] = ("per generated repository (work tree file, index, linked worktree or packed layout): (1) before/after manifest "
                       "(type, mode, size, mtime_ns, SHA-256) of everything incl. .git and linked worktrees, with all mtimes set to "
                       "the past first; (2) strace -f of the run (plain and --progress): any open with O_WRONLY/O_RDWR/O_CREAT/"
                       "O_TRUNC/O_APPEND or unlink/rename/mkdir/chmod/utimensat/... on a path inside the repository is a violation "
                       "even if it failed or was undone; (3) N runs of the -race build with GOMAXPROCS in {1,2,3,8,16}, taskset, "
                       "and the shim delaying/chunking rev-list, cat-file and for-each-ref with seeded plans: stdout byte-identical "
                       "to the plain build's for JSON v1, v2, table, +-progress; race detector log must be empty. Distinct = "
                       "repositories + distinct orderings of the children's first-output/eof/exit events seen by the shim. (4) long linear "
                       "histories (30k commits; thorough also 120k and 400k) whose maxima sit in old commits named only by their own "
                       "branch/tag, and repositories with thousands of references (+--show-refs): repeated runs of both builds with "
                       "GOMAXPROCS 1..16 and taskset must print identical bytes and leave the race log empty.")
    chk.assumptions += ["the Go race detector treats write(2)->read(2) through the git children as happens-before: races ordered only "
                        "through the external process are invisible", "schedules are sampled, not enumerated"]
