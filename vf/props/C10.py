"""C10 All-or-nothing reporting under faults and invalid input (fault enumeration)."""
import os
import random
import shutil
import subprocess

from .. import gen as G
from .. import parse_out as P
from .. import run as R

LEVEL = "fault_enumeration"

TERMS = ["exit:2", "exit:128", "sig:KILL", "sig:TERM", "sig:SEGV"]


def report_shaped(out):
    """Does stdout look like (part of) a report?"""
    if not out.strip():
        return False
    if out.startswith(P.HEADER1[:20]) or P.NOPROBLEMS.strip() in out:
        return True
    s = out.lstrip()
    if s.startswith(b"{"):
        return True
    if b"| Name " in out or b"unique_commit_count" in out:
        return True
    return False


def judge(r, baseline, ctx):
    """Returns list of (clause, detail)."""
    v = []
    if r.timed_out:
        live = (r.rusage or {}).get("live_children", [])
        quiescent = (r.rusage or {}).get("quiescent", False)
        dump = b"goroutine " in r.err
        if dump and (not live or quiescent):
            # every goroutine is blocked and either no child exists any more, or the whole process tree is asleep
            # without consuming CPU or producing output during the observation window
            v.append(("hang/deadlock-witness(process tree quiescent, goroutines blocked)",
                      dict(ctx, process_tree=(r.rusage or {}).get("process_tree"), dump=r.err[-3000:])))
        else:
            v.append(("INCONCLUSIVE", "watchdog fired without a deadlock witness: live children %r" % live))
        return v
    if r.rc == 0:
        if baseline is not None and r.out != baseline:
            v.append(("exit-0-but-report-differs-from-fault-free-run", dict(ctx, out=r.out[:300], want=baseline[:300])))
        if baseline is None:
            v.append(("exit-0-where-failure-is-required", dict(ctx, out=r.out[:300])))
    else:
        if report_shaped(r.out):
            v.append(("non-zero-exit-but-report-on-stdout", dict(ctx, rc=r.rc, out=r.out[:300])))
        if not r.err.strip():
            v.append(("non-zero-exit-without-error-message", dict(ctx, rc=r.rc)))
    return v


def build_small(rng, path):
    m = G.random_model(rng, size="small", hostile_names=False, noise=False)
    # make sure every kind is present
    pool = m.pool
    if not m.tags:
        t = G.Tag(m.commits[0], name=b"v")
        m.refs["refs/tags/vv"] = t
    gitdir = G.write_model(m, path, skip_empty_tree=True)
    return m, gitdir


def build_large(path, nrefs=2000):
    """>1600 roots (more than one pipe buffer of oids) and >3000 objects."""
    m = G.Model()
    blob = G.Blob(b"shared\n")
    prev = None
    for i in range(nrefs):
        t = G.Tree([G.Entry(G.FILE, b"f%d" % i, blob)])
        c = G.Commit(t, [prev] if prev is not None and i % 3 else [], cts=1112911993 + i, msg=b"c%d\n" % i)
        prev = c
        m.refs["refs/heads/b%04d" % i] = c
    gitdir = G.write_model(m, path, packed_refs=True)
    return m, gitdir


def trunc_points(L, lines_at, thorough):
    pts = {0, L}
    if L > 0:
        pts |= {1, L - 1, L // 2}
    for e in lines_at[:3] + lines_at[-2:]:
        pts |= {e, e - 1, e + 1}
    if thorough:
        if L <= 400:
            pts |= set(range(L + 1))
        else:
            for e in lines_at[:40]:
                pts |= {e, e - 1, e + 1, e - 20}
    return sorted(p for p in pts if 0 <= p <= L)


def record_pass(sz, shimdir, gitdir, argv, d):
    pdir = os.path.join(d, "rec")
    plan = R.make_plan(pdir, [], record=True)
    r = R.sizer(sz, gitdir, argv, shimdir=shimdir, plan=plan, tmpdir=d)
    evs = R.read_events(pdir)
    shutil.rmtree(pdir, ignore_errors=True)
    return r, evs


def fault_job(arg):
    sz, shimdir, gitdir, argv, rule, baseline, d, jid = arg
    pdir = os.path.join(d, "p%d" % jid)
    plan = R.make_plan(pdir, [rule])
    r = R.sizer(sz, gitdir, argv, shimdir=shimdir, plan=plan, tmpdir=d, timeout=20)
    evs = R.read_events(pdir)
    shutil.rmtree(pdir, ignore_errors=True)
    delivered = any(e.get("delivered") and e.get("mode") == "fault" for e in evs)
    ctx = {"argv": argv, "rule": rule}
    v = judge(r, baseline, ctx)
    if delivered and r.rc == 0 and not r.timed_out:
        # "If any git subprocess fails or is killed at any point of its output ... it terminates with a non-zero status":
        # every planned termination is abnormal (exit 2/128 or a signal; never the documented "not set" status 1)
        v.append(("exit-0-although-a-git-subprocess-failed", dict(ctx, stderr=r.err[-200:])))
    panic = r.rc == 2 and b"goroutine " in r.err and b"panic" in r.err
    return {"viol": v, "delivered": delivered, "rc": r.rc, "panic": panic, "rule": rule, "stderr_head": r.err[:160]}


def git_fault_campaign(chk, b, rng, tier, scratch):
    sz, shimdir = b.sizer(), b.shimdir()
    d = os.path.join(scratch, "faults")
    os.makedirs(d)
    small_m, small = build_small(rng, os.path.join(d, "small"))
    large_m, large = build_large(os.path.join(d, "large"))
    root = sorted(small_m.refs)[0]
    # the same repository with refgroup configuration: every group costs further `git config` children
    small_rg = os.path.join(d, "small-refgroups")
    shutil.copytree(small, small_rg)
    with open(os.path.join(small_rg, "config"), "a") as f:
        f.write('[refgroup "tags"]\n\tinclude = refs/heads\n[refgroup "mine"]\n\tname = Mine\n'
                '[refgroup "mine.a"]\n\tinclude = refs/heads\n[refgroup "mine.b"]\n\tincludeRegexp = refs/(tags|remotes)/.*\n'
                '[refgroup "solo"]\n\tinclude = refs\n\texclude = refs/heads\n')
    targets = [
        ("small-json", small, ["--json", "--no-progress"]),
        ("small-table-root", small, ["-v", "--no-progress", "--branches", root]),
        ("large-json", large, ["--json", "--json-version=2", "--no-progress"]),
        ("small-refgroups-json", small_rg, ["--json", "--json-version=2", "--no-progress"]),
        ("small-refgroups-table-group-option", small_rg, ["-v", "--no-progress", "--include", "@mine", "--exclude", "@solo"]),
        ("small-json-cpuprofile", small, ["--json", "--no-progress", "--cpuprofile=" + os.path.join(d, "cpu-faults.prof")]),
    ]
    jobs = []
    jid = 0
    plan_stats = {}
    for tname, gitdir, argv in targets:
        r0, evs = record_pass(sz, shimdir, gitdir, argv, d)
        if r0.timed_out:
            # the fault-free run itself does not terminate (e.g. feeder and consumer waiting for each other once the
            # root list / listing exceeds the pipe buffers)
            for clause, det in judge(r0, None, {"argv": argv, "target": tname, "fault": "none"}):
                if clause == "INCONCLUSIVE":
                    chk.inconc(det)
                else:
                    chk.violation("C10/fault-free-run/%s/%s" % (clause, tname), det)
            continue
        if r0.rc != 0 or not evs:
            chk.inconc("record pass failed for %s: rc=%s %r" % (tname, r0.rc, r0.err[:200]))
            continue
        # the fault-free stdout without the shim must be identical to the recorded one
        r1 = R.sizer(sz, gitdir, argv, tmpdir=d)
        if r1.out != r0.out:
            chk.violation("C10/record-mode-changes-output", {"argv": argv})
        baseline = r1.out
        plan_stats[tname] = {"git_invocations": len(evs), "signatures": sorted({e["sig"] for e in evs})}
        thorough = tier != "quick"
        for e in evs:
            L = e["real_bytes"]
            # line ends are not known to the shim log; approximate with fixed record lengths
            if e["sig"] in ("rev-list", "cat-file --batch-check", "for-each-ref"):
                step = {"rev-list": 41, "cat-file --batch-check": 50, "for-each-ref": 70}[e["sig"]]
                lines_at = list(range(step, L, step))
            else:
                lines_at = []
            pts = trunc_points(L, lines_at, thorough and tname.startswith("small"))
            if tname.startswith("large"):
                pts = sorted(set([0, 1, L // 3, L // 2, L - 1, L] + ([65536, 65537, 70000] if L > 70000 else [])))
                pts = [p for p in pts if 0 <= p <= L]
            # status 1 is the documented "not set" answer of `git config --get`; from every other child it is a failure
            T1 = TERMS if e["sig"].startswith("config --get") else ["exit:1"] + TERMS
            terms = T1 if thorough else None
            for n in pts:
                for term in (terms or [rng.choice(T1[:3]), rng.choice(T1[3:])]):
                    jobs.append((sz, shimdir, gitdir, argv, {"sig": e["sig"], "ord": e["ord"], "mode": "fault",
                                                             "after_bytes": n, "term": term}, baseline, d, jid))
                    jid += 1
            # fails before producing anything / before reading its input (+ noise on stderr)
            for term in (TERMS if thorough else [rng.choice(TERMS)]):
                jobs.append((sz, shimdir, gitdir, argv, {"sig": e["sig"], "ord": e["ord"], "mode": "fault", "before_exec": True,
                                                         "term": term, "stderr": "fatal: injected\n"}, baseline, d, jid))
                jid += 1
            if e["sig"] in ("rev-list", "cat-file --batch", "cat-file --batch-check", "for-each-ref") and not tname.startswith("large"):
                # closes its output (cut or complete) and fails only seconds later: end-of-file and exit status arrive apart
                for n, ms in ((L // 2, 2600), (L, 3400)) + (((max(0, L - 1), 6500),) if thorough else ()):
                    jobs.append((sz, shimdir, gitdir, argv, {"sig": e["sig"], "ord": e["ord"], "mode": "fault", "after_bytes": n,
                                                             "term": rng.choice(TERMS), "linger_ms": ms}, baseline, d, jid))
                    jid += 1
            if e["sig"] in ("rev-list", "cat-file --batch", "cat-file --batch-check"):
                # stays alive without reading stdin, then dies: the feeder is blocked mid-input on the large repository
                jobs.append((sz, shimdir, gitdir, argv, {"sig": e["sig"], "ord": e["ord"], "mode": "fault", "before_exec": True,
                                                         "pre_ms": 1200 if tname.startswith("large") else 300, "term": rng.choice(TERMS)},
                             baseline, d, jid))
                jid += 1
    res = R.pmap(fault_job, jobs, chunksize=4, chk=chk)
    delivered = 0
    panics = 0
    points = set()
    for r in res:
        chk.count()
        if r["delivered"]:
            delivered += 1
            points.add((r["rule"]["sig"], r["rule"]["ord"], r["rule"].get("after_bytes", -1), r["rule"]["term"],
                        r["rule"].get("pre_ms", 0)))
        if r["panic"]:
            panics += 1
            chk.cov.setdefault("panics_under_faults_samples", [])
            if len(chk.cov["panics_under_faults_samples"]) < 3:
                chk.cov["panics_under_faults_samples"].append({"rule": r["rule"], "stderr": r["stderr_head"]})
        for clause, det in r["viol"]:
            if clause == "INCONCLUSIVE":
                chk.inconc(det)
            else:
                chk.violation("C10/git-fault/%s/%s" % (clause, r["rule"]["sig"].split(" ")[0]), det)
    for p in points:
        chk.nontrivial(("fault",) + p)
    chk.cov["git_fault_plans"] = len(jobs)
    chk.cov["git_fault_plans_delivered"] = delivered
    chk.cov["git_fault_panics_exit2_counted_not_raised"] = panics
    chk.cov["recorded_runs"] = plan_stats
    if jobs and delivered < 0.9 * len(jobs):
        chk.inconc("only %d of %d fault plans were delivered" % (delivered, len(jobs)))
    if res:
        chk.sample({"fault_plan": res[0]["rule"], "exit_status": res[0]["rc"], "stderr": res[0]["stderr_head"]})
        chk.sample({"fault_plan": res[len(res) // 2]["rule"], "exit_status": res[len(res) // 2]["rc"], "stderr": res[len(res) // 2]["stderr_head"]})
    return small_m, small, sz, d


def missing_job(arg):
    sz, gitdir, oid, reachable, argv, baseline, d = arg
    # copy-on-write style: hide the object file, run, put it back (jobs for one repository run sequentially)
    f = os.path.join(gitdir, "objects", oid[:2], oid[2:])
    hidden = f + ".hidden"
    os.rename(f, hidden)
    try:
        r = R.sizer(sz, gitdir, argv, tmpdir=d, timeout=20)
    finally:
        os.rename(hidden, f)
    ctx = {"argv": argv, "missing_object": oid, "reachable": reachable}
    return judge(r, baseline if not reachable else None, ctx)


def other_faults(chk, b, rng, tier, small_m, small, sz, d):
    from .. import oracle as O
    argv = ["--json", "--no-progress"]
    baseline = R.sizer(sz, small, argv, tmpdir=d).out
    reach = O.reachable(list(small_m.refs.values()))
    allobjs = small_m.all_objects()
    n = 0
    for oid, o in allobjs.items():
        if oid == G.EMPTY_TREE:
            continue
        if not os.path.exists(os.path.join(small, "objects", oid[:2], oid[2:])):
            continue
        for clause, det in missing_job((sz, small, oid, oid in reach, argv, baseline, d)):
            if clause == "INCONCLUSIVE":
                chk.inconc(det)
            else:
                chk.violation("C10/missing-object/%s/%s" % (clause, o.kind), det)
        chk.count()
        chk.nontrivial(("missing", oid))
        n += 1
    chk.cov["missing_object_cases"] = n

    # shallow / absent / corrupt
    cases = []
    sh = os.path.join(d, "shallow")
    shutil.copytree(small, sh)
    rc0 = [o for o in reach.values() if o.kind == "commit"]
    c0 = rc0[0].oid if rc0 else "0" * 40
    with open(os.path.join(sh, "shallow"), "w") as f:
        f.write(c0 + "\n")
    cases.append(("shallow-file", sh, argv, {}))
    if small_m.commits and len(small_m.commits) > 1:
        cl = os.path.join(d, "clone")
        p = subprocess.run([G.REAL_GIT, "clone", "-q", "--bare", "--depth", "1", "file://" + small, cl], env=G.git_env(),
                           stdout=subprocess.PIPE, stderr=subprocess.PIPE)
        if p.returncode == 0 and os.path.exists(os.path.join(cl, "shallow")):
            cases.append(("shallow-clone", cl, argv, {}))
    # shallow + linked worktree (the shallow file lives in the common directory)
    shw = os.path.join(d, "shallow-wt-main")
    shutil.copytree(small, shw)
    with open(os.path.join(shw, "shallow"), "w") as f:
        f.write(c0 + "\n")
    wtp = os.path.join(d, "shallow-wt")
    pw = subprocess.run([G.REAL_GIT, "--git-dir", shw, "worktree", "add", "--detach", "--no-checkout", wtp, c0], env=G.git_env(),
                        stdout=subprocess.PIPE, stderr=subprocess.PIPE)
    if pw.returncode == 0:
        cases.append(("shallow-linked-worktree", wtp, argv, {}))
        cases.append(("shallow-linked-worktree-root-only", wtp, argv + [c0 + "^{tree}"], {}))
    empty = os.path.join(d, "notarepo")
    os.makedirs(empty)
    cases.append(("absent-repository", empty, argv, {"GIT_CEILING_DIRECTORIES": d}))
    cases.append(("absent-git-dir-env", empty, argv, {"GIT_DIR": os.path.join(d, "does-not-exist")}))
    ch = os.path.join(d, "corrupthead")
    shutil.copytree(small, ch)
    with open(os.path.join(ch, "HEAD"), "w") as f:
        f.write("garbage\n")
    cases.append(("corrupt-HEAD", ch, argv, {}))
    cr = os.path.join(d, "corruptref")
    shutil.copytree(small, cr)
    with open(os.path.join(cr, "refs", "heads", "broken"), "w") as f:
        f.write("not-an-oid\n")
    ignored_by_git = [("corrupt-ref-ignored-by-git", cr, argv, {})]
    co = os.path.join(d, "corruptobj")
    shutil.copytree(small, co)
    rc_ = [o for o in reach.values() if o.kind == "commit"]
    if rc_:
        oid = rc_[0].oid
        with open(os.path.join(co, "objects", oid[:2], oid[2:]), "wb") as f:
            f.write(b"this is not zlib")
        cases.append(("corrupt-object", co, argv, {}))
    # invalid input
    root = sorted(small_m.refs)[0]
    for name, a in [
        ("threshold-not-a-number", ["--threshold=x"]), ("names-bogus", ["--names=bogus"]), ("json-version-3", ["--json", "--json-version=3"]),
        ("json-version-0", ["--json", "--json-version=0"]), ("json-version-nan", ["--json", "--json-version=two"]),
        ("unterminated-regexp", ["--include", "/refs/(heads/"]), ("undefined-refgroup", ["--include", "@undefined"]),
        ("empty-refgroup-name", ["--include", "@"]), ("deprecated-refgroup-undefined", ["--refgroup=nope"]),
        ("unknown-flag", ["--no-such-flag"]), ("branches-maybe", ["--branches=maybe"]), ("progress-bad", ["--progress=perhaps"]),
        ("bad-regexp-flag", ["--include-regexp", "*"]), ("unknown-rev", ["no-such-rev"]), ("missing-path", [root + ":missing/path"]),
        ("ambiguous-abbrev", ["0"]), ("rev-range", ["a..b"]), ("empty-root", [""]), ("option-like-root", ["--", "--output=x"]),
        ("verbose-bad", ["--verbose=maybe"]), ("critical-bad", ["--critical=2"]), ("missing-value", ["--threshold"]),
        ("missing-include-value", ["--include"]),
    ]:
        cases.append(("invalid/" + name, small, ["--json", "--no-progress"] + a if "--json" not in a else ["--no-progress"] + a, {}))
    # invalid gitconfig values for sizer.*
    for key, val, extra in [("sizer.threshold", "abc", []), ("sizer.names", "bogus", []), ("sizer.jsonVersion", "7", ["--json"]),
                            ("sizer.jsonVersion", "x", ["--json"]), ("sizer.progress", "maybe", ["NOPROGRESSFLAG"]),
                            ("refgroup.bad.includeRegexp", "(", []), ("refgroup.leaf.name", "no rules", [])]:
        # (sizer.progress is only consulted when neither --progress nor --no-progress is given)
        cases.append(("invalid-config/%s=%s" % (key, val), small, [] if extra == ["NOPROGRESSFLAG"] else ["--no-progress"] + extra,
                      {"GIT_CONFIG_COUNT": "1", "GIT_CONFIG_KEY_0": key, "GIT_CONFIG_VALUE_0": val}))
    for name, cwd, a, env in ignored_by_git:
        # `git for-each-ref` skips a broken loose ref with a warning and succeeds: not a fault of the property's list;
        # the report must then be the fault-free one
        r = R.sizer(sz, cwd, a, env=env, tmpdir=d, timeout=20)
        chk.count()
        for clause, det in judge(r, baseline, {"case": name, "argv": a}):
            if clause == "INCONCLUSIVE":
                chk.inconc(det)
            else:
                chk.violation("C10/%s/%s" % (name, clause), det)
    # the same cases again together with options that only add side activities (a CPU profile written outside the repository,
    # the reference listing): how a run ends must not depend on them
    # (none of them belongs to an option family that a gitconfig entry of these cases could be overridden by)
    extras = [["--cpuprofile=" + os.path.join(d, "cpu.prof")], ["--show-refs"], ["--cpuprofile=" + os.path.join(d, "cpu2.prof"), "--show-refs"]]
    cases = cases + [(n + "/with-" + x[0].split("=")[0].lstrip("-"), c, x + [y for y in a if y != "--no-progress" or "--progress" not in x], e)
                     for i, (n, c, a, e) in enumerate(cases) for x in [extras[i % len(extras)]]]
    for name, cwd, a, env in cases:
        r = R.sizer(sz, cwd, a, env=env, tmpdir=d, timeout=20)
        chk.count()
        chk.nontrivial(("case", name))
        for clause, det in judge(r, None, {"case": name, "argv": a}):
            if clause == "INCONCLUSIVE":
                chk.inconc(det)
            else:
                chk.violation("C10/%s/%s" % (name.split("/")[0], clause) + ("/" + name.split("/", 1)[1] if "/" in name else ""), det)
    chk.cov["invalid_and_absent_cases"] = len(cases)
    chk.sample({"case": cases[0][0]})

    # output faults: the first sentence of the property does not depend on who caused the failure
    ofaults = 0
    for fmt_args in (["--json", "--no-progress"], ["--json", "--json-version=2", "--no-progress"], ["-v", "--no-progress"]):
        base = R.sizer(sz, small, fmt_args, tmpdir=d).out
        # /dev/full
        with open("/dev/full", "wb") as full:
            r = R.run_proc([sz] + fmt_args, small, R.base_env(), timeout=20, tmpdir=d, stdout_fd=full)
        ofaults += 1
        chk.count()
        if r.rc == 0:
            chk.violation("C10/output-fault/exit-0-although-report-could-not-be-written/dev-full/" +
                          ("json" if "--json" in fmt_args else "table"), {"argv": fmt_args})
        elif not r.err.strip():
            chk.violation("C10/output-fault/non-zero-exit-without-error-message", {"argv": fmt_args})
        # (a *closed* stdout is not a usable fault: the Go runtime re-opens closed standard descriptors on /dev/null at
        #  start-up, so the write succeeds and nothing can be observed; a vanished pipe reader kills the process by SIGPIPE
        #  before it can print anything. Both are outside what the program can influence and are not judged.)
        # strace write error injection on the report write
        outp = os.path.join(d, "strace-out.txt")
        open(outp, "wb").close()
        cmd = ["strace", "-f", "-o", "/dev/null", "-P", outp, "-e", "trace=write", "-e", "inject=write:error=ENOSPC:when=1", sz] + fmt_args
        with open(outp, "wb") as of:
            p = subprocess.run(cmd, cwd=small, env=R.base_env(), stdout=of, stderr=subprocess.PIPE, timeout=60)
        ofaults += 1
        chk.count()
        got = open(outp, "rb").read()
        if p.returncode == 0 and got != base:
            chk.violation("C10/output-fault/exit-0-although-report-could-not-be-written/ENOSPC/" +
                          ("json" if "--json" in fmt_args else "table"), {"argv": fmt_args, "written": got[:100]})
        chk.nontrivial(("output-fault", tuple(fmt_args)))
        # stdout that accepts only the first N bytes (sealed memory file; N = every line boundary of the report): the report
        # could not be written, so the run must fail - also when the failing write is not the first one
        base_, sweep = R.output_limit_sweep(sz, small, fmt_args, tmpdir=d, max_points=60 if tier != "quick" else 30, rng=rng)
        for n_, r_, w_ in sweep:
            ofaults += 1
            chk.count()
            if r_.timed_out:
                chk.inconc("watchdog in an output-limit run")
            elif r_.rc == 0:
                chk.violation("C10/output-fault/exit-0-although-report-could-not-be-written/limit/" +
                              ("json" if "--json" in fmt_args else "table"),
                              {"argv": fmt_args, "limit": n_, "accepted_bytes": w_, "report_length": len(base_)})
            elif not r_.err.strip():
                chk.violation("C10/output-fault/non-zero-exit-without-error-message", {"argv": fmt_args, "limit": n_})
            chk.nontrivial(("output-limit", tuple(fmt_args), n_))
    # stdout switched to non-blocking mode by another holder of the pipe while the program runs, one-page pipe, slow reader: the
    # write of the report stops half-way with EAGAIN
    rgdir = os.path.join(d, "small-refgroups")
    for fmt_args in (["--json", "--json-version=2", "--no-progress"], ["-v", "--no-progress"], ["--json", "--no-progress"]):
        tgt = rgdir if os.path.isdir(rgdir) else small
        base = R.sizer(sz, tgt, fmt_args, tmpdir=d).out
        r, got = R.nonblocking_stdout_run(sz, tgt, fmt_args, b.shimdir(), d)
        ofaults += 1
        chk.count()
        if r.timed_out:
            chk.inconc("watchdog in a non-blocking stdout run")
        elif r.rc == 0 and got != base:
            chk.violation("C10/output-fault/exit-0-although-report-could-not-be-written/EAGAIN/" + ("json" if "--json" in fmt_args else "table"),
                          {"argv": fmt_args, "report_length": len(base), "received": len(got)})
        elif r.rc != 0 and not r.err.strip():
            chk.violation("C10/output-fault/non-zero-exit-without-error-message", {"argv": fmt_args, "fault": "EAGAIN"})
        if len(base) > 4096:
            chk.nontrivial(("output-eagain", tuple(fmt_args)))
    chk.cov["output_fault_cases"] = ofaults


def run(chk, b, tier):
    from ._camp import vanishing_object_stage
    vanishing_object_stage(chk, b, "C10", [], tier, must_fail=True)
    rng = random.Random("C10|%d" % R.SEED)
    scratch = b.scratchdir()
    small_m, small, sz, d = git_fault_campaign(chk, b, rng, tier, scratch)
    other_faults(chk, b, rng, tier, small_m, small, sz, d)
    chk.cov["rule"] = ("fault classes, each enumerated: (1) every git invocation of a recorded run (small repository in JSON and "
                       "table mode with a ROOT; a 2000-ref repository whose root list exceeds one pipe buffer) x truncation "
                       "points of its real output (0, 1, line ends +-1, middle, L-1, L; every byte for outputs <= 400 bytes in "
                       "the thorough tier) x terminations {exit 2, exit 128, SIGKILL, SIGTERM, SIGSEGV} + failing before "
                       "producing anything + staying alive without reading stdin and then dying; (2) every object file of a "
                       "repository removed in turn (reachable => must fail, unreachable => identical report); (3) shallow file / "
                       "shallow clone / absent repository / corrupt HEAD, ref, object; (4) invalid options, ROOTs and sizer.* / "
                       "refgroup.* configuration values; (5) output faults (/dev/full, closed stdout, ENOSPC injected by strace "
                       "into the report write). Clauses: exit 0 => stdout byte-identical to the fault-free run; exit != 0 => "
                       "nothing report-shaped on stdout and a message on stderr; watchdog + deadlock witness => hang. Distinct "
                       "= distinct (invocation, byte offset, termination) points actually delivered (shim log) + cases.")
    chk.assumptions += ["the shim adds no behaviour a real git could not show; delivered faults are proven by the shim's event log",
                        "a Go panic (exit 2, trace on stderr, nothing on stdout) satisfies the letter of the property and is counted, not raised"]
