package main

import (
	"encoding/json"
	"fmt"
	"math/rand"
	"runtime/debug"
	"math"
	"reflect"
	"sort"

	"github.com/github/git-sizer/git"
	"github.com/github/git-sizer/sizes"
)

type gobj struct {
	OID  string `json:"oid"`
	Size uint64 `json:"size,omitempty"`
	Data []byte `json:"data,omitempty"` // base64 in JSON
	// for commits: indexes of parents within the commits list (for topological enumeration)
	Parents []int `json:"parents,omitempty"`
}

type gref struct {
	Name   string   `json:"name"`
	OID    string   `json:"oid"`
	Type   string   `json:"type"`
	Groups []string `json:"groups"`
}

type gmodel struct {
	Blobs   []gobj `json:"blobs"`
	Trees   []gobj `json:"trees"`
	Commits []gobj `json:"commits"` // parents-first
	Tags    []gobj `json:"tags"`
	Refs    []gref `json:"refs"`
}

// runGraph feeds the model through the public Graph API in the given orders.
func runGraph(m *gmodel, style sizes.NameStyle, blobOrder, treeOrder, commitOrder, tagOrder []int) (res string, pan string) {
	defer func() {
		if r := recover(); r != nil {
			pan = fmt.Sprintf("%v\n%s", r, debug.Stack())
		}
	}()
	g := sizes.NewGraph(style)
	for _, i := range blobOrder {
		b := m.Blobs[i]
		registerBlob(g, mustOID(b.OID), b.Size)
	}
	for _, i := range treeOrder {
		t := m.Trees[i]
		oid := mustOID(t.OID)
		tree, err := git.ParseTree(oid, t.Data)
		if err != nil {
			return "", "ParseTree error: " + err.Error()
		}
		if err := g.RegisterTree(oid, tree); err != nil {
			return "", "RegisterTree error: " + err.Error()
		}
	}
	for _, i := range commitOrder {
		c := m.Commits[i]
		oid := mustOID(c.OID)
		commit, err := git.ParseCommit(oid, c.Data)
		if err != nil {
			return "", "ParseCommit error: " + err.Error()
		}
		g.RegisterCommit(oid, commit)
	}
	for _, i := range tagOrder {
		t := m.Tags[i]
		oid := mustOID(t.OID)
		tag, err := git.ParseTag(oid, t.Data)
		if err != nil {
			return "", "ParseTag error: " + err.Error()
		}
		g.RegisterTag(oid, tag)
	}
	for _, r := range m.Refs {
		var gs []sizes.RefGroupSymbol
		for _, s := range r.Groups {
			gs = append(gs, sizes.RefGroupSymbol(s))
		}
		g.RegisterReference(git.Reference{Refname: r.Name, ObjectType: git.ObjectType(r.Type), OID: mustOID(r.OID)}, gs)
	}
	h := g.HistorySize()
	return numericJSON(h), ""
}

// registerBlob calls Graph.RegisterBlob whatever the width of its size parameter is in the tree under test.
func registerBlob(g *sizes.Graph, oid git.OID, size uint64) {
	f := reflect.ValueOf(g.RegisterBlob)
	pt := f.Type().In(1)
	v := reflect.New(pt).Elem()
	if pt.Bits() == 32 && size > math.MaxUint32 {
		size = math.MaxUint32
	}
	v.SetUint(size)
	f.Call([]reflect.Value{reflect.ValueOf(oid), v})
}

// numericJSON renders only the numeric members of the v1 JSON, keys sorted.
func numericJSON(h sizes.HistorySize) string {
	b, err := json.Marshal(h)
	if err != nil {
		return "marshal error: " + err.Error()
	}
	var m map[string]interface{}
	dec := json.NewDecoder(bytesReader(b))
	dec.UseNumber()
	dec.Decode(&m)
	keys := make([]string, 0, len(m))
	for k, v := range m {
		if _, isStr := v.(string); isStr {
			continue
		}
		keys = append(keys, k)
	}
	sort.Strings(keys)
	out := "{"
	for i, k := range keys {
		vb, _ := json.Marshal(m[k])
		if i > 0 {
			out += ","
		}
		out += fmt.Sprintf("%q:%s", k, vb)
	}
	return out + "}"
}

func ident(n int) []int {
	p := make([]int, n)
	for i := range p {
		p[i] = i
	}
	return p
}

// permutations calls f for every permutation of 0..n-1 (Heap's algorithm), until f returns false.
func permutations(n int, f func([]int) bool) {
	p := ident(n)
	c := make([]int, n)
	if !f(p) {
		return
	}
	i := 0
	for i < n {
		if c[i] < i {
			if i%2 == 0 {
				p[0], p[i] = p[i], p[0]
			} else {
				p[c[i]], p[i] = p[i], p[c[i]]
			}
			if !f(p) {
				return
			}
			c[i]++
			i = 0
		} else {
			c[i] = 0
			i++
		}
	}
}

// topoOrders enumerates orders of commits in which every parent precedes its children.
func topoOrders(m *gmodel, limit int, f func([]int) bool) {
	n := len(m.Commits)
	used := make([]bool, n)
	order := make([]int, 0, n)
	count := 0
	var rec func() bool
	rec = func() bool {
		if len(order) == n {
			count++
			if !f(order) {
				return false
			}
			return count < limit
		}
		for i := 0; i < n; i++ {
			if used[i] {
				continue
			}
			ok := true
			for _, p := range m.Commits[i].Parents {
				if !used[p] {
					ok = false
					break
				}
			}
			if !ok {
				continue
			}
			used[i] = true
			order = append(order, i)
			cont := rec()
			order = order[:len(order)-1]
			used[i] = false
			if !cont {
				return false
			}
		}
		return true
	}
	rec()
}

func randomTopo(m *gmodel, rng *rand.Rand) []int {
	n := len(m.Commits)
	used := make([]bool, n)
	order := make([]int, 0, n)
	for len(order) < n {
		var ready []int
		for i := 0; i < n; i++ {
			if used[i] {
				continue
			}
			ok := true
			for _, p := range m.Commits[i].Parents {
				if !used[p] {
					ok = false
				}
			}
			if ok {
				ready = append(ready, i)
			}
		}
		i := ready[rng.Intn(len(ready))]
		used[i] = true
		order = append(order, i)
	}
	return order
}

type graphMismatch struct {
	Which string `json:"which"`
	Order []int  `json:"order"`
	Got   string `json:"got,omitempty"`
	Panic string `json:"panic,omitempty"`
}

// graphCase: {"model": gmodel, "names": "full", "perm_limit": 5040, "random": 50, "seed": 1}
func graphCase(id interface{}, c rawCase) map[string]interface{} {
	var m gmodel
	if err := json.Unmarshal(c["model"], &m); err != nil {
		panic("bad model: " + err.Error())
	}
	var ns sizes.NameStyle
	style := getStr(c, "names")
	if style == "" {
		style = "full"
	}
	ns.Set(style)
	limit := getInt(c, "perm_limit")
	nrandom := getInt(c, "random")
	rng := rand.New(rand.NewSource(int64(getInt(c, "seed"))))

	bI, tI, cI, gI := ident(len(m.Blobs)), ident(len(m.Trees)), ident(len(m.Commits)), ident(len(m.Tags))
	canon, pan := runGraph(&m, ns, bI, tI, cI, gI)
	res := map[string]interface{}{"canonical": canon}
	if pan != "" {
		res["canonical_panic"] = pan
		return res
	}
	var mism []graphMismatch
	tried := map[string]int{}
	try := func(which string, b, t, cc, g []int) bool {
		got, pan := runGraph(&m, ns, b, t, cc, g)
		tried[which]++
		if pan != "" || got != canon {
			var ord []int
			switch which {
			case "blobs":
				ord = b
			case "trees":
				ord = t
			case "commits":
				ord = cc
			case "tags":
				ord = g
			default:
				ord = t
			}
			if len(mism) < 10 {
				mism = append(mism, graphMismatch{which, append([]int(nil), ord...), got, pan})
			}
			return len(mism) < 10
		}
		return true
	}
	fact := func(n int) int {
		f := 1
		for i := 2; i <= n; i++ {
			f *= i
			if f > 1<<30 {
				return 1 << 30
			}
		}
		return f
	}
	exh := map[string]bool{}
	// trees
	if len(m.Trees) > 1 {
		if fact(len(m.Trees)) <= limit {
			exh["trees"] = true
			permutations(len(m.Trees), func(p []int) bool { return try("trees", bI, p, cI, gI) })
		}
		for i := 0; i < nrandom; i++ {
			p := rng.Perm(len(m.Trees))
			try("trees", bI, p, cI, gI)
		}
		// reversed
		rv := ident(len(m.Trees))
		for i, j := 0, len(rv)-1; i < j; i, j = i+1, j-1 {
			rv[i], rv[j] = rv[j], rv[i]
		}
		try("trees", bI, rv, cI, gI)
	}
	if len(m.Tags) > 1 {
		if fact(len(m.Tags)) <= limit {
			exh["tags"] = true
			permutations(len(m.Tags), func(p []int) bool { return try("tags", bI, tI, cI, p) })
		}
		for i := 0; i < nrandom; i++ {
			try("tags", bI, tI, cI, rng.Perm(len(m.Tags)))
		}
	}
	if len(m.Blobs) > 1 {
		for i := 0; i < nrandom/4+1; i++ {
			try("blobs", rng.Perm(len(m.Blobs)), tI, cI, gI)
		}
	}
	if len(m.Commits) > 1 {
		n := 0
		topoOrders(&m, limit, func(o []int) bool { n++; return try("commits", bI, tI, o, gI) })
		if n < limit {
			exh["commits"] = true
		}
		for i := 0; i < nrandom; i++ {
			try("commits", bI, tI, randomTopo(&m, rng), gI)
		}
	}
	// everything shuffled together
	for i := 0; i < nrandom; i++ {
		var cc []int
		if len(m.Commits) > 0 {
			cc = randomTopo(&m, rng)
		}
		try("all", rng.Perm(len(m.Blobs)), rng.Perm(len(m.Trees)), cc, rng.Perm(len(m.Tags)))
	}
	res["tried"] = tried
	res["exhaustive"] = exh
	res["mismatches"] = mism
	return res
}
