"""C16 Object parsers are lossless and total."""
import base64
import glob
import os
import random
import re
import shutil
import subprocess

from .. import gen as G
from .. import run as R

LEVEL = "exploration"

TARGETS = ["FuzzParseTree", "FuzzParseCommit", "FuzzParseTag", "FuzzHeaderIter", "FuzzParseReference", "FuzzParseBatchHeader"]


def b64(b):
    return base64.b64encode(b).decode()


def gen_bodies(rng, n):
    """(kind, body bytes, expected dict) from the generator's models."""
    out = []
    for i in range(n):
        m = G.random_model(rng, size=rng.choice(["small", "medium"]), hostile_names=True, hostile_commits=True)
        for o in m.all_objects().values():
            if o.kind == "tree":
                exp = [(int(e.mode, 8), e.name, e.child_oid()) for e in o.entries]
                out.append(("tree", o.body(), {"entries": exp, "canonical": all(not e.mode.startswith(b"0") for e in o.entries)}))
            elif o.kind == "commit":
                out.append(("commit", o.body(), {"tree": o.tree.oid, "parents": [p.oid for p in o.parents]}))
            elif o.kind == "tag":
                out.append(("tag", o.body(), {"referent": o.target.oid, "type": o.target.kind}))
    # hand-made header shapes
    h1, h2, h3 = "1" * 40, "2" * 40, "3" * 40
    base = b"tree " + h1.encode() + b"\nparent " + h2.encode() + b"\nauthor A <a@b> 1 +0000\ncommitter C <c@d> 2 +0000\n"
    extras = [
        b"gpgsig -----BEGIN PGP SIGNATURE-----\n \n iQEzBAABCAAdFiEE\n tree " + h3.encode() + b"\n parent " + h3.encode() + b"\n -----END PGP SIGNATURE-----\n",
        b"mergetag object " + h3.encode() + b"\n type commit\n tag v1\n tagger X <x@y> 1 +0000\n \n tree " + h3.encode() + b"\n parent " + h3.encode() + b"\n",
        b"encoding ISO-8859-1\n", b"gpgsig-sha256 x\n y\n", b"HG:rename a b\n", b"x-parent " + h3.encode() + b"\n",
        b"parentx " + h3.encode() + b"\n", b"treeish " + h3.encode() + b"\n",
    ]
    msgs = [b"\nmsg\n", b"", b"\n", b"\nparent " + h3.encode() + b"\ntree " + h3.encode() + b"\n", b"\n\n\nparent " + h3.encode() + b"\n",
            b"\ntree " + h3.encode(), b"\n" + b"x" * 70000 + b"\n", b"\n\xff\xfe binary \x00 nul\n"]
    for ex in [b""] + extras + [extras[0] + extras[1]]:
        for msg in msgs:
            out.append(("commit", base + ex + msg, {"tree": h1, "parents": [h2]}))
    # octopus, no parents
    out.append(("commit", b"tree " + h1.encode() + b"\n" + b"".join(b"parent %040x\n" % k for k in range(1, 70)) +
                b"author A <a@b> 1 +0000\ncommitter C <c@d> 2 +0000\n\nm\n", {"tree": h1, "parents": ["%040x" % k for k in range(1, 70)]}))
    tbase = b"object " + h1.encode() + b"\ntype commit\ntag v1\ntagger T <t@x> 1 +0000\n"
    for msg in [b"\nmsg\n", b"", b"\nobject " + h3.encode() + b"\ntype blob\n", b"\n-----BEGIN PGP SIGNATURE-----\n\nabc\n-----END PGP SIGNATURE-----\n",
                b"\n\n\ntype tree\n"]:
        out.append(("tag", tbase + msg, {"referent": h1, "type": "commit"}))
    out.append(("tag", b"object " + h1.encode() + b"\ntype tag\ntag nested\n", {"referent": h1, "type": "tag"}))
    # zero-padded modes (old histories): totality + entry equality, not byte-exact round trip
    oid20 = bytes(range(20))
    out.append(("tree", b"040000 old\0" + oid20 + b"100644 f\0" + oid20,
                {"entries": [(0o40000, b"old", oid20.hex()), (0o100644, b"f", oid20.hex())], "canonical": False}))
    return out


def differential(chk, drv, rng, tier):
    bodies = gen_bodies(rng, 12 if tier == "quick" else 150)
    cases = [{"id": i, "kind": k, "data": b64(b), "scribble": 1 if (k == "tree" and i % 2) else 0} for i, (k, b, _) in enumerate(bodies)]
    obs, rc, err = R.drv(drv, "parse", cases)
    if len(obs) != len(cases):
        chk.inconc("parse driver returned %d of %d" % (len(obs), len(cases)))
    kinds = {}
    for o in obs:
        kind, body, exp = bodies[o["id"]]
        chk.count()
        kinds[kind] = kinds.get(kind, 0) + 1
        if "panic" in o:
            chk.violation("C16/differential/panic/" + kind, {"body": body[:300], "panic": o["panic"]})
            continue
        if "err" in o:
            chk.violation("C16/differential/valid-object-rejected/" + kind, {"body": body[:400], "err": o["err"]})
            continue
        if kind == "tree":
            got = [(m, base64.b64decode(n), oid) for m, n, oid in (o["entries"] or [])]
            if got != exp["entries"]:
                chk.violation("C16/differential/tree-entries", {"body": body[:300], "got": got[:4], "want": exp["entries"][:4]})
            elif exp["canonical"]:
                re_ser = b"".join(b"%o %s\0%s" % (m, n, bytes.fromhex(oid)) for m, n, oid in got)
                if re_ser != body:
                    chk.violation("C16/differential/tree-roundtrip", {"body": body[:300]})
            if o["size"] != len(body):
                chk.violation("C16/differential/tree-size", {"got": o["size"], "want": len(body)})
            if "interleaved" in o and o["interleaved"] != [len(exp["entries"])] * 3:
                chk.violation("C16/differential/tree-iterated-twice-at-once", {"entries": len(exp["entries"]),
                                                                                "seen_by_first_second_later_iteration": o["interleaved"]})
            if len(exp["entries"]) >= 2:
                chk.nontrivial(("tree", o["id"]))
        elif kind == "commit":
            if o["tree"] != exp["tree"] or (o["parents"] or []) != exp["parents"]:
                chk.violation("C16/differential/commit-header-extraction", {"body": body[:600], "got": [o["tree"], o["parents"]],
                                                                             "want": [exp["tree"], exp["parents"]]})
            if o["size"] != len(body):
                chk.violation("C16/differential/commit-size", {"got": o["size"], "want": len(body)})
            chk.nontrivial(("commit", o["id"]))
        elif kind == "tag":
            if o["referent"] != exp["referent"] or o["type"] != exp["type"]:
                chk.violation("C16/differential/tag-header-extraction", {"body": body[:400], "got": [o["referent"], o["type"]],
                                                                          "want": [exp["referent"], exp["type"]]})
            chk.nontrivial(("tag", o["id"]))
    chk.cov["differential_objects"] = kinds
    chk.sample({"differential": "commit", "body": bodies[-20][1][:200]})
    return bodies


def listing_truncations(chk, drv, b, rng, tier):
    """Real for-each-ref / cat-file lines; every prefix, with and without LF."""
    scratch = b.scratchdir()
    m = G.random_model(rng, size="small")
    gitdir = G.write_model(m, os.path.join(scratch, "lrepo"))
    fer = G.rgit(gitdir, "for-each-ref", "--format=%(objectname) %(objecttype) %(objectsize) %(refname)").stdout
    objs = list(m.all_objects())
    bc = G.rgit(gitdir, "cat-file", "--batch-check", input=("".join(o + "\n" for o in objs[:6]) + "0" * 40 + "\nnot-a-name\n").encode()).stdout
    shutil.rmtree(os.path.join(scratch, "lrepo"), ignore_errors=True)
    cases = []
    meta = []
    for line in fer.splitlines()[:6]:
        for cut in range(len(line) + 1):
            cases.append({"id": len(cases), "kind": "ref", "data": b64(line[:cut])})
            meta.append(("ref", line, cut))
    for line in bc.splitlines():
        full = line + b"\n"
        for cut in range(len(full) + 1):
            cases.append({"id": len(cases), "kind": "batch", "data": b64(full[:cut])})
            meta.append(("batch", full, cut))
            if cut < len(full) and cut > 0:
                cases.append({"id": len(cases), "kind": "batch", "data": b64(full[:cut] + b"\n")})
                meta.append(("batch+lf", full, cut))
    obs, rc, err = R.drv(drv, "parse", cases)
    if len(obs) != len(cases):
        chk.inconc("parse driver returned %d of %d for listings" % (len(obs), len(cases)))
    for o in obs:
        kind, line, cut = meta[o["id"]]
        chk.count()
        if "panic" in o:
            short = "empty-input" if cut == 0 else ("fewer-than-3-words" if kind.startswith("batch") else "other")
            chk.violation("C16/listing/panic/%s/%s" % (kind.split("+")[0], short),
                          {"line": line, "cut": cut, "variant": kind, "panic": o["panic"]})
            continue
        if cut == len(line) and "err" in o and kind in ("ref", "batch") and b" missing" not in line:
            chk.violation("C16/listing/valid-line-rejected/" + kind, {"line": line, "err": o["err"]})
        if cut == len(line) and "err" not in o:
            w = line.rstrip(b"\n").split(b" ")
            if kind == "ref":
                ok = (o["oid"] == w[0].decode() and o["type"] == w[1].decode() and o["size"] == int(w[2]) and
                      base64.b64decode(o["refname"]) == w[3])
            else:
                ok = o["oid"] == w[0].decode() and o["type"] == w[1].decode() and o["size"] == int(w[2])
            if not ok:
                chk.violation("C16/listing/fields-differ/" + kind, {"line": line, "got": o})
            chk.nontrivial(("line", o["id"]))
    chk.cov["listing_truncation_cases"] = len(obs)


def write_corpus(hdir, bodies):
    """Seed corpus for the fuzz targets from the generator's output."""
    def enc(b):
        return 'go test fuzz v1\n[]byte(%s)\n' % go_quote(b)

    def go_quote(b):
        return '"' + "".join(("\\x%02x" % c) for c in b) + '"'

    per = {"tree": "FuzzParseTree", "commit": "FuzzParseCommit", "tag": "FuzzParseTag"}
    n = {}
    for kind, body, _ in bodies:
        if len(body) > 4000:
            continue
        t = per[kind]
        k = n.get(t, 0)
        if k >= 40:
            continue
        n[t] = k + 1
        d = os.path.join(hdir, "testdata", "fuzz", t)
        os.makedirs(d, exist_ok=True)
        with open(os.path.join(d, "seed-%d" % k), "w") as f:
            f.write(enc(body))
        if kind in ("commit", "tag"):
            d2 = os.path.join(hdir, "testdata", "fuzz", "FuzzHeaderIter")
            os.makedirs(d2, exist_ok=True)
            with open(os.path.join(d2, "seed-%s-%d" % (kind, k)), "w") as f:
                f.write(enc(body))


def fuzz(chk, b, bodies, tier):
    hdir = b.harness_dir()
    write_corpus(hdir, bodies)
    execs = 300000 if tier == "quick" else 20000000
    env = R.goenv({"GOCACHE": os.path.join(b.dir, "gocache-fuzz")})
    # reuse the normal build cache for compilation speed, private fuzz cache dir for generated corpus
    env = R.goenv({})
    total = 0
    for tgt in TARGETS:
        cmd = ["go", "test", "-tags", b.tag, "-run", "^$", "-fuzz", "^%s$" % tgt, "-fuzztime", "%dx" % execs, "-parallel", "16", "."]
        p = subprocess.run(cmd, cwd=hdir, env=env, stdout=subprocess.PIPE, stderr=subprocess.STDOUT, timeout=3600)
        out = p.stdout.decode(errors="replace")
        m = re.findall(r"execs: (\d+)", out)
        n = int(m[-1]) if m else 0
        total += n
        chk.count(n)
        chk.cov.setdefault("fuzz_execs", {})[tgt] = n
        newint = re.findall(r"new interesting: (\d+) \(total: (\d+)\)", out)
        if newint:
            chk.cov.setdefault("fuzz_corpus_total", {})[tgt] = int(newint[-1][1])
        if p.returncode != 0:
            crashers = glob.glob(os.path.join(hdir, "testdata", "fuzz", tgt, "*"))
            crashers = [c for c in crashers if not os.path.basename(c).startswith("seed-")]
            rdir = os.path.join(R.VERIF, "replays", "C16")
            os.makedirs(rdir, exist_ok=True)
            saved = []
            for cfile in crashers[:3]:
                dst = os.path.join(rdir, "%s-%s" % (tgt, os.path.basename(cfile)))
                shutil.copy(cfile, dst)
                saved.append(dst)
            msg = "\n".join(l for l in out.splitlines() if "panic" in l or "Fatalf" in l or "fuzz_test.go" in l or "runtime error" in l
                            or "Failing input" in l or "--- FAIL" in l)[:1500]
            if "FAIL" not in out and "panic" not in out:
                chk.inconc("go test -fuzz %s failed without a crasher: %s" % (tgt, out[-600:]))
                continue
            first = ""
            mm = re.search(r"(runtime error: [^\n]*|well-formed [a-z ]+ rejected[^\n]*|iterator does not terminate|[a-z-]+ differs?[^\n]*|not part of the input)", out)
            if mm:
                first = re.sub(r"\d+", "N", mm.group(1))[:80]
            chk.violation("C16/fuzz/%s/%s" % (tgt, first), {"target": tgt, "crashers": saved, "output": msg})
        elif n < execs * 0.5:
            chk.inconc("fuzz target %s executed only %d inputs" % (tgt, n))
    chk.cov["fuzz_total_execs"] = total


def big_tree_model(rng, versions=40, entries=5200):
    """Several versions of a directory whose tree object exceeds 1 MiB, plus a 1.2 MB commit message and tag."""
    blobs = [G.Blob(b"b%d" % i) for i in range(7)]
    prev = None
    m = G.Model()
    for v in range(versions):
        ents = [G.Entry(G.FILE, b"file-%06d-%s.txt" % (j, b"y" * 180), blobs[(j + v * (j % 11 == 0)) % 7]) for j in range(entries)]
        big = G.Tree(ents, presorted=True)
        top = G.Tree([G.Entry(G.TREE, b"big", big), G.Entry(G.FILE, b"v", G.Blob(b"v%d" % v))])
        prev = G.Commit(top, [prev] if prev else [], cts=1600000000 + v,
                        msg=(b"big message\n" + b"z" * 1200000 + b"\n") if v == 1 else b"v%d\n" % v)
    m.refs["refs/heads/main"] = prev
    m.refs["refs/tags/bigtag"] = G.Tag(prev, name=b"bigtag", msg=b"t" * 1100000 + b"\n")
    # three sibling directories of > 1 MiB each: consecutive huge objects in the second pass's stream
    sib = []
    for k in range(3):
        ents = [G.Entry(G.FILE, b"sibling-%d-file-%06d-%s.txt" % (k, j, b"w" * 170), blobs[(j + k) % 7]) for j in range(entries - 100 * k)]
        sib.append(G.Entry(G.TREE, b"huge%d" % k, G.Tree(ents, presorted=True)))
    m.refs["refs/heads/siblings"] = G.Commit(G.Tree(sib), [], cts=1600001000, msg=b"huge siblings\n")
    return m


def end_to_end(chk, b, rng, tier):
    """What the parsers deliver when fed by the real `git cat-file --batch` stream (objects of a few bytes up to > 1 MiB,
    read back to back, consumer and reader goroutines under different schedules) must add up to the model's numbers."""
    from .. import oracle as O
    from .. import parse_out as P
    sz = b.sizer()
    scratch = b.scratchdir()
    models = [("big-trees", big_tree_model(rng))]
    for i in range(2 if tier == "quick" else 10):
        models.append(("random-%d" % i, G.random_model(rng, size="medium", hostile_names=True)))
    # runs of consecutive 33-70 KB commits, sibling trees and tags: what a reader that recycles a few buffers trips over
    from ..campaign import add_big_runs
    mb = G.random_model(rng, size="small", hostile_names=False)
    add_big_runs(rng, mb, mb.pool)
    models.append(("big-runs", mb))
    nrun = 0
    for name, m in models:
        d = os.path.join(scratch, "e2e-" + name)
        gitdir = G.write_model(m, d)
        ex = O.compute(list(m.refs.values()))
        for k in range(10 if name == "big-trees" else 3):
            r = R.sizer(sz, gitdir, ["--json", "--no-progress", "--names=" + ["full", "none", "hash"][k % 3]],
                        env={"GOMAXPROCS": ["16", "2", "1", "4", "3"][k % 5]}, tmpdir=scratch, timeout=300)
            chk.count()
            nrun += 1
            if r.rc != 0 or r.timed_out:
                chk.violation("C16/end-to-end/run-failed/" + name.split("-")[0], {"repo": name, "rc": r.rc, "stderr": r.err[-400:]})
                continue
            js, _ = P.parse_json(r.out)
            bad = O.compare_numeric(ex, js or {}, [k_ for k_ in O.CAPS if k_ != "reference_count"])
            if bad:
                chk.violation("C16/end-to-end/values-differ/" + name.split("-")[0], {"repo": name, "diffs": bad[:4]})
        if name in ("big-trees", "big-runs"):
            # the same stream under the race detector: the bytes handed to the parsers must not be written by the reader
            # goroutine while they are parsed (happens-before evidence, independent of how the schedule falls)
            szr = b.sizer(race=True)
            logdir = os.path.join(scratch, "e2e-race-" + name)
            os.makedirs(logdir, exist_ok=True)
            for k in range(8 if name == "big-trees" else 4):
                r = R.sizer(szr, gitdir, ["--json", "--no-progress"], env={"GORACE": "halt_on_error=0 log_path=%s/race" % logdir,
                                                                          "GOMAXPROCS": ["8", "2", "16", "4"][k % 4]}, tmpdir=scratch, timeout=600)
                chk.count()
                nrun += 1
            nraces = 0
            for fn in os.listdir(logdir):
                txt = open(os.path.join(logdir, fn), "rb").read()
                if b"WARNING: DATA RACE" in txt:
                    nraces += txt.count(b"WARNING: DATA RACE")
                    chk.violation("C16/end-to-end/data-race-on-object-bytes", {"report": txt[:2500]})
            chk.cov["end_to_end_race_reports"] = chk.cov.get("end_to_end_race_reports", 0) + nraces
        shutil.rmtree(d, ignore_errors=True)
    chk.cov["end_to_end_runs"] = nrun
    chk.nontrivial("end-to-end")


def concurrent_parsers(chk, b, rng, tier):
    """The parsers are plain functions and may be called from several goroutines at once (the driver uses 6): thousands of
    listing lines and tag bodies with type words and names never seen before, interleaved with ordinary ones. The plain
    build must answer every case with the right fields; the same batch under the race detector must leave its log empty."""
    n = 20000 if tier == "quick" else 400000
    cases, want = [], []
    h = "%040x"
    for i in range(n):
        word = rng.choice(["blob", "tree", "commit", "tag", "kind%d" % i, "t%dx" % (i * 7), "Blob", "commit%d" % (i % 50)])
        oid = h % rng.getrandbits(160)
        size = rng.choice([0, 1, 12, 4096, 2 ** 31, rng.getrandbits(30)])
        k = i % 3
        if k == 0:
            name = "refs/heads/n%d" % i
            cases.append({"id": i, "kind": "ref", "data": b64(("%s %s %d %s" % (oid, word, size, name)).encode())})
            want.append(("ref", oid, word, size, name))
        elif k == 1:
            cases.append({"id": i, "kind": "batch", "data": b64(("%s %s %d\n" % (oid, word, size)).encode())})
            want.append(("batch", oid, word, size, None))
        else:
            body = ("object %s\ntype %s\ntag t%d\ntagger T <t@example.com> 1 +0000\n\nmessage %d\n" % (oid, word, i, i)).encode()
            cases.append({"id": i, "kind": "tag", "data": b64(body)})
            want.append(("tag", oid, word, len(body), None))
    for build in ("plain", "race"):
        drv = b.apidrv(race=(build == "race"))
        logdir = os.path.join(b.scratchdir(), "concurrent-race")
        shutil.rmtree(logdir, ignore_errors=True)
        os.makedirs(logdir)
        sub = cases if build == "plain" else cases[:max(3000, n // 10)]
        obs, rc, err = R.drv(drv, "parse", sub, env={"GORACE": "halt_on_error=0 log_path=%s/race" % logdir, "GOMAXPROCS": "8"})
        chk.count(len(obs))
        if len(obs) != len(sub) or rc not in (0, 66):
            chk.violation("C16/concurrent/parsers-crashed-when-called-from-several-goroutines/" + build,
                          {"answered": len(obs), "asked": len(sub), "exit_status": rc, "stderr": err[:1500].decode("utf-8", "replace")})
            continue
        bad = 0
        for o in obs:
            kind, oid, word, size, name = want[o["id"]]
            if "panic" in o:
                chk.violation("C16/concurrent/panic/" + kind, {"panic": o["panic"], "case": want[o["id"]]})
                continue
            if "err" in o:
                if kind == "tag" and word not in ("blob", "tree", "commit", "tag"):
                    continue    # an unknown referent type may be refused
                chk.violation("C16/concurrent/well-formed-input-rejected/" + kind, {"err": o["err"], "case": want[o["id"]]})
                continue
            ok = o.get("type") == word and (o.get("oid", o.get("referent")) == oid)
            if kind in ("ref", "batch"):
                ok = ok and o.get("size") == min(size, 2 ** 32 - 1 if kind == "ref" else size)
            if kind == "ref":
                ok = ok and base64.b64decode(o["refname"]).decode() == name
            if not ok and bad < 3:
                bad += 1
                chk.violation("C16/concurrent/fields-differ/" + kind, {"got": o, "want": want[o["id"]]})
        txt = b""
        for fn in sorted(os.listdir(logdir)):
            txt += open(os.path.join(logdir, fn), "rb").read()
        if b"WARNING: DATA RACE" in txt:
            chk.violation("C16/concurrent/data-race-inside-the-parsers", {"reports": txt.count(b"WARNING: DATA RACE"), "first": txt[:2500].decode("utf-8", "replace")})
        shutil.rmtree(logdir, ignore_errors=True)
        chk.cov["concurrent_parser_cases_" + build] = len(obs)
    chk.nontrivial(("concurrent", n))


def _trunc_job(arg):
    sz, shimdir, gitdir, rule, d, jid, revlist_full = arg
    pdir = os.path.join(d, "t%d" % jid)
    plan = R.make_plan(pdir, [rule], record=True, record_stdin=True)
    r = R.sizer(sz, gitdir, ["--json", "--no-progress"], shimdir=shimdir, plan=plan, tmpdir=d, timeout=30)
    out = {"rule": rule, "rc": r.rc, "viol": [], "timed_out": r.timed_out}
    err = r.err
    if b"panic:" in err or b"fatal error:" in err or (r.rc is not None and r.rc < 0):
        # a crash is the parsers' (this property's) only if it happens inside package git - the listing readers and parsers;
        # a panic of the aggregation over an inconsistent but well-formed listing is not judged here
        i = err.find(b"goroutine ")
        frames = re.findall(rb"\n([A-Za-z0-9_./*()\-]+)\(", err[i:i + 3000])[:6] if i >= 0 else []
        inside = [f.decode() for f in frames if f.startswith(b"github.com/github/git-sizer/git.")]
        if inside or b"fatal error:" in err or (r.rc is not None and r.rc < 0):
            out["viol"].append(("crash-inside-the-listing-readers/" + rule["sig"].split(" ")[-1],
                                {"rule": rule, "exit_status": r.rc, "frames": inside[:3], "stderr": err[:700].decode("utf-8", "replace")}))
        else:
            out["aggregation_panics"] = 1
    # what the object-name consumers were sent: only names that the (possibly cut) listing delivered completely
    def lines_of(fn):
        p = os.path.join(pdir, fn)
        if not os.path.exists(p):
            return None
        return open(p, "rb").read().split(b"\n")
    sent = lines_of("stdin.cat-file_--batch-check.0")
    if sent is not None and rule["sig"] == "rev-list":
        delivered = revlist_full[:rule["after_bytes"]]
        complete = {ln[:40] for ln in delivered.split(b"\n") if len(ln) >= 40}
        for ln in sent:
            if ln and ln not in complete:
                out["viol"].append(("bytes-from-outside-the-listing-sent-to-cat-file",
                                    {"rule": rule, "sent_line": ln[:80].decode("latin-1"), "listing_tail": delivered[-60:].decode("latin-1")}))
                break
    out["sent_lines"] = len(sent) if sent else 0
    shutil.rmtree(pdir, ignore_errors=True)
    return out


def truncated_listings(chk, b, rng, tier):
    """End to end: each listing child (for-each-ref, rev-list, cat-file --batch-check, cat-file --batch) stops after N
    bytes - inside an object name, inside a line, at a line end - with a success or a failure status. The program may fail
    or succeed, but it must not crash, and what it passes on to the next child must be names the listing delivered in full
    (the shim keeps a copy of the children's stdin)."""
    sz, shimdir = b.sizer(), b.shimdir()
    d = os.path.join(b.scratchdir(), "trunc")
    os.makedirs(d)
    m = G.random_model(rng, size="medium", hostile_names=False, noise=False)
    gitdir = G.write_model(m, os.path.join(d, "repo"))
    pdir = os.path.join(d, "rec")
    r0 = R.sizer(sz, gitdir, ["--json", "--no-progress"], shimdir=shimdir, plan=R.make_plan(pdir, [], record=True, record_stdin=True), tmpdir=d)
    evs = {e["sig"]: e for e in R.read_events(pdir)}
    roots_in = open(os.path.join(pdir, "stdin.rev-list.0"), "rb").read() if os.path.exists(os.path.join(pdir, "stdin.rev-list.0")) else b""
    if r0.rc != 0 or "rev-list" not in evs or not roots_in:
        chk.inconc("truncated-listings: record pass failed")
        return
    full = subprocess.run([G.REAL_GIT, "--no-replace-objects", "--git-dir", gitdir, "rev-list", "--objects", "--stdin", "--date-order"],
                          input=roots_in, stdout=subprocess.PIPE, stderr=subprocess.DEVNULL, env=G.git_env({"GIT_GRAFT_FILE": "/dev/null"})).stdout
    if len(full) != evs["rev-list"]["real_bytes"]:
        chk.inconc("truncated-listings: cannot reproduce the rev-list listing (%d vs %d bytes)" % (len(full), evs["rev-list"]["real_bytes"]))
        return
    jobs = []
    nrand = 25 if tier == "quick" else 400
    for sig in ("rev-list", "cat-file --batch-check", "cat-file --batch", "for-each-ref"):
        L = evs[sig]["real_bytes"] if sig in evs else 0
        if L == 0:
            continue
        pts = set(range(0, min(L, 100))) | set(range(max(0, L - 60), L)) | {rng.randrange(L) for _ in range(nrand)}
        if tier == "quick":
            pts = set(rng.sample(sorted(pts), min(len(pts), 70)))
        for n in sorted(pts):
            jobs.append((sz, shimdir, gitdir, {"sig": sig, "ord": 0, "mode": "fault", "after_bytes": n,
                                                "term": ["exit:0", "exit:128", "sig:KILL"][len(jobs) % 3]}, d, len(jobs), full))
    res = R.pmap(_trunc_job, jobs, chunksize=4, chk=chk)
    checked = 0
    for r in res:
        chk.count()
        checked += r["sent_lines"]
        chk.bump("panics_outside_package_git_under_truncated_listings_not_judged", r.get("aggregation_panics", 0))
        for clause, det in r["viol"]:
            chk.violation("C16/end-to-end/" + clause, det)
        chk.nontrivial(("trunc", r["rule"]["sig"], r["rule"]["after_bytes"]))
    chk.cov["truncated_listing_runs"] = len(res)
    chk.cov["names_passed_on_to_cat_file_checked"] = checked
    shutil.rmtree(d, ignore_errors=True)


def run(chk, b, tier):
    rng = random.Random("C16|%d" % R.SEED)
    drv = b.apidrv()
    bodies = differential(chk, drv, rng, tier)
    listing_truncations(chk, drv, b, rng, tier)
    concurrent_parsers(chk, b, random.Random("C16c|%d" % R.SEED), tier)
    truncated_listings(chk, b, random.Random("C16t|%d" % R.SEED), tier)
    end_to_end(chk, b, rng, tier)
    fuzz(chk, b, bodies, tier)
    from ._camp import generic_fault_sweep
    generic_fault_sweep(chk, b, "C16", [['--json', '--no-progress']])
    chk.cov["rule"] = ("(1) differential: every tree/commit/tag body of generated models (hostile names, gpgsig / mergetag "
                       "continuation lines containing tree/parent/object lines, messages imitating headers, missing message) "
                       "through git.ParseTree+TreeIter / ParseCommit / ParseTag vs the model, byte-exact re-serialisation of "
                       "trees; (2) every prefix (with and without LF) of real for-each-ref and cat-file --batch-check lines "
                       "through ParseReference / ParseBatchHeader: result or error, never a panic, full lines give the right "
                       "fields; (3) Go native coverage-guided fuzzing of 6 targets with in-target oracles (no panic, "
                       "termination, sub-slice, agreement with a reference parser on well-formed input); (4) 2*10^4 (4*10^5) listing lines "
                       "and tag bodies with never-seen type words parsed by 6 goroutines at once, plain and -race builds. Non-trivial = "
                       "objects/lines judged in (1)+(2); fuzz executions are counted in evaluations.")
    chk.assumptions += ["'accepted by git' for generated objects = produced by the generator shapes that git fsck accepts "
                        "(sampled in the generator self-check)", "the fuzzer's own PRNG is not seedable (coverage-guided)"]
