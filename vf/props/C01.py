"""C01 Census of reachable objects is exact."""
from ._camp import run_campaign, api_delay_stage
from .. import oracle as _O

LEVEL = "exploration"


def run(chk, b, tier):
    n = 240 if tier == "quick" else 15000

    def nt(f):
        keys = []
        if f["objects"] >= 3:
            keys.append("objects>=3")
            if f["unselected_refs"]:
                keys.append("has-unselected-refs")
            if f["explicit_roots"]:
                keys.append("has-explicit-roots")
            if f["tags"]:
                keys.append("has-tags")
        return keys

    run_campaign(chk, b, ["general", "hostile-names", "roots", "trees", "dag", "general"], n, ["census"], "C01", nt,
                 "random repository models (commit DAGs, shared trees, tag chains, refs to any object kind, unreachable "
                 "noise objects, detached HEAD) x root selections (all refs / selection options / explicit ROOT spellings "
                 "/ both); the 8 census numbers of --json are compared with the reference model's reachable set from "
                 "{refs marked '+' by --show-refs} U {ROOT objects}. A run is non-trivial when >=3 objects are reachable; "
                 "distinct = distinct (repository, argv) pairs.", permute=0.2)
    api_delay_stage(chk, b, _O.CENSUS_KEYS + (["reference_count"] if "C01" == "C01" else []), "C01", 6 if tier == "quick" else 150)
    chk.assumptions += ["reference model (vf/oracle.py) and generator are trusted; generator self-checked against git cat-file",
                        "git 2.39.5 is the only git"]
