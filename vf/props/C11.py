"""C11 Table, JSON v1 and JSON v2 agree; the threshold filters monotonically."""
import base64
import math
import os
import random
import shutil
from fractions import Fraction

from .. import gen as G
from .. import oracle as O
from .. import parse_out as P
from .. import run as R
from .C12 import judge_py

LEVEL = "exploration"

INF = "∞".encode()


def parse_threshold(ts):
    return float(ts)


def shown_expected(v, ref, T, cap):
    """Returns set of acceptable booleans for 'row shown' (both when exactly on the float boundary)."""
    if v == cap:
        return {True}
    exact = Fraction(v) / Fraction(ref) >= Fraction(T) if math.isfinite(T) else (T < 0)
    fl = (float(v) / ref) >= T
    return {exact, fl}


def marker_expected(v, ref, cap):
    if v == cap:
        return {b"!" * 30}
    out = set()
    for alert in (Fraction(v) / Fraction(ref), Fraction(float(v) / ref)):
        if alert > 30:
            out.add(b"!" * 30)
        else:
            out.add(b"*" * int(alert))
    return out


def check_formats(j1, j2, tables, ctxname, group_names=None):
    """group_names: optional {symbol: display name} (unique names) so that refgroup rows can be judged as well."""
    """j1, j2: parsed JSON; tables: list of (threshold string, table bytes). Returns list of (clause, detail)."""
    probs = []
    metrics = {}
    for path, name, sym, v1k, hum, unit, scale in P.TABLE_LAYOUT:
        v = j1.get(v1k)
        it = j2.get(sym)
        if it is None:
            probs.append(("v2-lacks-metric", {"sym": sym}))
            continue
        if it.get("value") != v:
            probs.append(("v2-value-differs-from-v1", {"sym": sym, "v1": v, "v2": it.get("value")}))
        ref = it.get("referenceValue")
        if ref != scale:
            probs.append(("v2-referenceValue", {"sym": sym, "got": ref, "documented": scale}))
        if ref:
            want = float(v) / ref
            if it.get("levelOfConcern") != want:
                probs.append(("v2-levelOfConcern", {"sym": sym, "got": it.get("levelOfConcern"), "want": want}))
        if it.get("unit") != unit or it.get("prefixes") != hum:
            probs.append(("v2-unit-or-prefixes", {"sym": sym, "got": [it.get("unit"), it.get("prefixes")]}))
        metrics[sym] = (v, ref or scale, hum, unit, O.CAPS[v1k])
    # refgroup items
    groups = j1.get("reference_groups") or {}
    g2 = {k[len("refgroup."):]: v for k, v in j2.items() if k.startswith("refgroup.")}
    for s, it in g2.items():
        if groups.get(s) != it.get("value"):
            probs.append(("v2-refgroup-value", {"sym": s, "v1": groups.get(s), "v2": it.get("value")}))
    prev_rows = None
    prev_T = None
    for ts, tb in sorted(tables, key=lambda x: parse_threshold(x[0])):
        T = parse_threshold(ts)
        tab = P.parse_table(tb)
        if tab.errors:
            probs.append(("table-unparsable", {"threshold": ts, "errors": tab.errors[:2]}))
            continue
        fixed, other = P.table_metrics(tab)
        rows_now = set(fixed)
        any_row = bool(P.data_rows(tab))
        if tab.no_problems and tb != P.NOPROBLEMS:
            probs.append(("no-problems-line-not-alone", {"threshold": ts}))
        for sym, (v, ref, hum, unit, cap) in metrics.items():
            row = fixed.get(sym)
            acc = shown_expected(v, ref, T, cap)
            if (row is not None) not in acc:
                probs.append(("row-shown-iff-ratio>=threshold", {"sym": sym, "value": v, "reference": ref, "threshold": ts,
                                                                   "shown": row is not None}))
                continue
            if row is None:
                continue
            if row.concern not in marker_expected(v, ref, cap):
                probs.append(("concern-marker", {"sym": sym, "value": v, "reference": ref, "marker": row.concern}))
            if v == cap:
                if row.value != INF:
                    probs.append(("saturated-not-infinity", {"sym": sym}))
            else:
                try:
                    numeral = row.value.decode("ascii")
                    us = row.unit.decode("ascii")
                except UnicodeDecodeError:
                    probs.append(("value-cell-not-ascii", {"sym": sym, "cell": row.value}))
                    continue
                bad, _ = judge_py(v, hum == "binary", numeral, us, unit)
                if bad:
                    probs.append(("table-value-not-a-rendering-of-json-value", {"sym": sym, "value": v, "cell": numeral + " " + us,
                                                                                 "clauses": bad}))
        # refgroup rows (scale 25000): value cell must be a correct rendering of the group's count
        if group_names:
            byname = {}
            for path, r in other:
                byname.setdefault(r.name.decode("utf-8", "replace"), []).append(r)
            for sym, disp in group_names.items():
                cnt = groups.get(sym)
                if cnt is None or sym == "":
                    continue
                rows_ = byname.get(disp, [])
                acc = shown_expected(cnt, 25000.0, T, O.U32)
                if (len(rows_) > 0) not in acc:
                    probs.append(("refgroup-row-shown-iff-ratio>=threshold", {"group": sym, "count": cnt, "threshold": ts, "shown": len(rows_)}))
                for r in rows_[:1]:
                    try:
                        bad, _ = judge_py(cnt, False, r.value.decode("ascii"), r.unit.decode("ascii"), "")
                    except UnicodeDecodeError:
                        bad = ["value-cell-not-ascii"]
                    if bad:
                        probs.append(("refgroup-table-value-not-a-rendering-of-json-value", {"group": sym, "name": disp, "count": cnt,
                                                                                            "cell": r.value + b" " + r.unit, "clauses": bad}))
        if not any_row and not tab.no_problems:
            probs.append(("empty-table-instead-of-no-problems-line", {"threshold": ts}))
        # a section header without rows beneath it
        rows = [r for r in tab.rows if not r.blank]
        for i, r in enumerate(rows):
            if r.is_header:
                lvl = (r.indent // 2 + 1) if r.bullet else 0
                nxt = rows[i + 1] if i + 1 < len(rows) else None
                nlvl = None if nxt is None else ((nxt.indent // 2 + 1) if nxt.bullet else 0)
                if nxt is None or nlvl <= lvl:
                    probs.append(("section-header-without-rows", {"header": r.name, "threshold": ts}))
        if T == 0 or T < 0:
            missing = [s for s in metrics if s not in fixed]
            if missing:
                probs.append(("verbose-hides-metric", {"missing": missing, "threshold": ts}))
        if prev_rows is not None and not rows_now <= prev_rows:
            probs.append(("raising-threshold-adds-row", {"from": prev_T, "to": ts, "added": sorted(rows_now - prev_rows)}))
        prev_rows, prev_T = rows_now, ts
    return probs


THRESHOLDS = ["0", "1", "30", "0.5", "1.001", "29.999", "31", "-1", "1e9", "+Inf", "2", "15"]


def api_level(chk, b, tier):
    drv = b.apidrv()
    rng = random.Random("C11|%d" % R.SEED)
    cases = []
    scales = {v1: (sc, hum) for _, _, _, v1, hum, _, sc in P.TABLE_LAYOUT}
    nvec = 150 if tier == "quick" else 10000
    for i in range(nvec):
        fields = {}
        for k, (sc, hum) in scales.items():
            cap = O.CAPS[k]
            r = rng.random()
            if r < 0.5:
                kk = rng.randint(0, 32)
                v = int(kk * sc) + rng.choice([-1, 0, 0, 1])
            elif r < 0.6:
                v = rng.choice([0, 1, cap, cap - 1])
            elif r < 0.8:
                v = int(rng.random() * 32 * sc)
            else:
                # right at a float boundary of the ratio
                kk = rng.randint(1, 31)
                v = int(math.ceil(kk * sc)) + rng.choice([0, -1])
            fields[k] = max(0, min(cap, v))
        nm = lambda base: base + "-" + "n" * rng.choice([0, 3, 12, 16, 20, 22, 24, 26, 30, 45])
        groups = [{"symbol": "", "name": "Refs"}, {"symbol": "branches", "name": nm("Branches")}, {"symbol": "a", "name": nm("Alpha")},
                  {"symbol": "a.b", "name": nm("Beta")}, {"symbol": "a.other", "name": "Other-a"}, {"symbol": "ignored", "name": "Ignored"}]
        gc = {"": 5, "branches": rng.choice([1, 123, 12500, 25000, 30 * 25000, 31 * 25000 + 1]), "a": rng.choice([3, 777, 99999]),
              "a.b": rng.choice([1, 24999, 25000, 1234567])}
        if rng.random() < 0.5:
            gc["ignored"] = rng.choice([1, 50000])
        cases.append({"id": i, "fields": fields, "groups": groups, "group_counts": gc, "thresholds": THRESHOLDS, "names": ["none"]})
    obs, rc, err = R.drv(drv, "output", cases)
    if len(obs) != len(cases):
        chk.inconc("output driver returned %d of %d" % (len(obs), len(cases)))
    nrows = 0
    for o in obs:
        c = cases[o["id"]]
        chk.count(len(THRESHOLDS) + 2)
        if "panic" in o:
            chk.violation("C11/api/panic", {"panic": o["panic"], "fields": c["fields"]})
            continue
        rd = o["renders"][0]
        j1, p1 = P.parse_json(base64.b64decode(rd["json1"]) + b"\n")
        j2, p2 = P.parse_json(base64.b64decode(rd["json2"]) + b"\n")
        if j1 is None or j2 is None:
            chk.violation("C11/api/bad-json", {"problems": p1 + p2})
            continue
        tables = []
        for ts in THRESHOLDS:
            tb = rd.get("table:" + ts)
            if tb is None:
                chk.violation("C11/api/table-missing", {"threshold": ts, "info": str({k: v for k, v in rd.items() if "panic" in k or "err" in k})[:300]})
                continue
            tables.append((ts, base64.b64decode(tb)))
        gnames = {g["symbol"]: g["name"] for g in c["groups"]}
        for clause, det in check_formats(j1, j2, tables, "api", group_names=gnames):
            chk.violation("C11/api/" + clause, dict(det, fields={k: c["fields"][k] for k in list(c["fields"])[:0]}))
        chk.nontrivial(("vec", o["id"]))
    chk.cov["api_vectors"] = len(obs)
    chk.cov["thresholds"] = THRESHOLDS
    chk.sample({"api_vector": {k: cases[0]["fields"][k] for k in list(cases[0]["fields"])[:6]}, "thresholds": THRESHOLDS})


def concerning_model(rng):
    """A repository that reaches 0..31+ stars in several metrics cheaply."""
    pool = G.Pool(rng)
    m = G.Model()
    blob = pool.new_blob(5)
    ents = [G.Entry(G.FILE, b"f", blob)]
    # path depth (scale 10) and path length (scale 100)
    depth = rng.choice([0, 3, 9, 10, 11, 50, 150, 299, 300, 301, 320])
    t = G.Tree([G.Entry(G.FILE, b"leaf" + b"x" * rng.choice([0, 10, 90, 200]), blob)])
    for _ in range(depth):
        t = G.Tree([G.Entry(G.TREE, b"d" * rng.choice([1, 1, 8]), t)])
    ents.append(G.Entry(G.TREE, b"deep", t))
    # gitlinks (scale 100)
    k = rng.choice([0, 1, 99, 100, 101, 1500, 2999, 3000, 3001, 3100])
    if k:
        ents.append(G.Entry(G.TREE, b"subs", G.Tree([G.Entry(G.GITLINK, b"m%05d" % j, "%040x" % (j + 1)) for j in range(k)])))
    # tree entries (scale 1000)
    k = rng.choice([0, 10, 999, 1000, 1001, 29999, 30000, 30001, 31000])
    if k:
        ents.append(G.Entry(G.TREE, b"wide", G.Tree([G.Entry(G.FILE, b"w%05d" % j, blob) for j in range(k)])))
    # bomb directories (scale 2000)
    if rng.random() < 0.5:
        ents.append(G.Entry(G.TREE, b"bomb", G.bomb(rng.choice([2, 3, 4]), rng.choice([4, 10, 16, 40]), blob)))
    top = G.Tree(ents)
    # octopus (scale 10)
    npar = rng.choice([0, 1, 2, 9, 10, 11, 29, 30, 31, 299, 300, 301, 310])
    base = G.Commit(top, [], cts=100)
    parents = [base] + [G.Commit(top, [], cts=101 + j, msg=b"p%d\n" % j) for j in range(max(0, npar - 1))]
    head = G.Commit(top, parents[:npar], cts=5000)
    m.refs["refs/heads/main"] = head
    # tag chain (scale 1.001)
    nt = rng.choice([0, 1, 2, 3, 29, 30, 31, 32, 40])
    tg = head
    for j in range(nt):
        tg = G.Tag(tg, name=b"t%d" % j)
    if nt:
        m.refs["refs/tags/chain"] = tg
    return m


def cli_case(arg):
    seed, idx, sz, scratch = arg[:4]
    rng = random.Random("C11c|%d|%d" % (seed, idx))
    d = os.path.join(scratch, "f%d" % idx)
    os.makedirs(d)
    out = {"viol": [], "evals": 0, "sample": None, "stars": 0}
    try:
        m = concerning_model(rng)
        gitdir = G.write_model(m, os.path.join(d, "repo"))
        r1 = R.sizer(sz, gitdir, ["--json", "--no-progress"], tmpdir=d)
        r2 = R.sizer(sz, gitdir, ["--json", "--json-version=2", "--no-progress"], tmpdir=d)
        out["evals"] += 2
        if r1.rc or r2.rc:
            out["viol"].append(("run-failed", {"stderr": (r1.err + r2.err)[-400:]}))
            return out
        j1, p1 = P.parse_json(r1.out)
        j2, p2 = P.parse_json(r2.out)
        if j1 is None or j2 is None:
            out["viol"].append(("bad-json", {"problems": p1 + p2}))
            return out
        tables = []
        ths = ["0", "1", "30"] + rng.sample(["0.5", "2", "3", "10", "29", "29.9", "30.5", "31", "100", "-3", "1e9"], 4)
        # in half of the repositories a sizer.threshold is configured as well: every run below names its threshold by an
        # option, so the configured value must not matter for which rows are shown
        cenv = {}
        if idx % 2 == 1:
            cenv = {"GIT_CONFIG_COUNT": "1", "GIT_CONFIG_KEY_0": "sizer.threshold", "GIT_CONFIG_VALUE_0": rng.choice(["0", "30", "5", "0.5"])}
        noise = [["-v"], ["--critical"], ["--no-verbose"], ["--threshold=7"], ["--verbose"], ["--threshold=0.25"]]
        for ts in ths:
            spell = {"0": ["--verbose"], "1": rng.choice([["--threshold=1"], ["--no-verbose"]]) if cenv else [], "30": ["--critical"]}.get(ts, ["--threshold=" + ts])
            if spell and rng.random() < 0.5:
                # the threshold that counts is the one named last; earlier (also repeated) threshold options are noise
                pre = [a for o in rng.sample(noise, rng.randint(1, 3)) for a in o]
                if rng.random() < 0.5:
                    pre = spell + pre        # the same flag given before, then something else, then again
                spell = pre + spell
            r = R.sizer(sz, gitdir, spell + ["--no-progress"], env=cenv, tmpdir=d)
            out["evals"] += 1
            if r.rc:
                out["viol"].append(("run-failed", {"threshold": ts, "stderr": r.err[-300:]}))
                continue
            tables.append((ts, r.out))
        for clause, det in check_formats(j1, j2, tables, "cli"):
            out["viol"].append((clause, det))
        if idx % 4 == 0 and len(arg) > 4:
            class _C:
                def count(self, n=1): out["evals"] += n
                def bump(self, *a): pass
                def violation(self, sig, det): out["viol"].append((sig.replace("C11/", ""), det))
            for fa in (["--json", "--json-version=2"], ["-v"]):
                R.fault_probe(_C(), "C11", sz, gitdir, fa + ["--no-progress"], rng, arg[4], d, n=2)
        out["stars"] = sum(1 for _, _, sym, v1, _, _, sc in P.TABLE_LAYOUT if j1.get(v1, 0) / sc >= 1)
        out["sample"] = {"max_parent_count": j1["max_parent_count"], "max_tag_depth": j1["max_tag_depth"],
                         "max_path_depth": j1["max_path_depth"], "max_tree_entries": j1["max_tree_entries"], "thresholds": ths}
    finally:
        shutil.rmtree(d, ignore_errors=True)
    return out


def run(chk, b, tier):
    api_level(chk, b, tier)
    sz = b.sizer()
    scratch = b.scratchdir()
    n = 32 if tier == "quick" else 1200
    shimdir = b.shimdir()
    res = R.pmap(cli_case, [(R.SEED, i, sz, scratch, shimdir) for i in range(n)], chk=chk)
    for i, r in enumerate(res):
        chk.count(r["evals"])
        for clause, det in r["viol"]:
            chk.violation("C11/cli/" + clause, det)
        if r["stars"] >= 2:
            chk.nontrivial(("repo", i))
        if r["sample"]:
            chk.sample(r["sample"], limit=5)
    from .C07 import many_refs_case, many_walked_refs_case
    many_refs_case(chk, sz, scratch, 120000 if tier == "quick" else 400000, prefix="C11")
    many_walked_refs_case(chk, sz, scratch, 3500 if tier == "quick" else 10000, prefix="C11")
    chk.cov["cli_repositories"] = n
    from ._camp import generic_fault_sweep
    generic_fault_sweep(chk, b, "C11", [['-v', '--no-progress'], ['--threshold=0', '--no-progress'], ['--json', '--json-version=2', '--no-progress']])
    chk.cov["rule"] = ("API: synthetic HistorySize vectors (each metric at k*reference, +-1, 0, cap-1, cap, float-boundary values) "
                       "through the real TableString / JSON v1 / JSON v2 for 12 thresholds; CLI: 'concerning' repositories "
                       "(tag chains, octopus merges, deep/long paths, gitlinks, wide trees, small bombs) x 3 formats x 7 "
                       "thresholds incl. the --verbose/--critical spellings. Clauses: v2 value/referenceValue/levelOfConcern vs v1; "
                       "row shown iff value/reference >= threshold or saturated (exact rationals; the IEEE result accepted at the "
                       "boundary); marker = floor(ratio) stars up to 30, '!' beyond; table value is a correct C12 rendering of the "
                       "JSON value; monotone in the threshold; --verbose shows all; single no-problems line; no header without "
                       "rows. Non-trivial: vectors / repositories with >=2 metrics at >=1 star.")
    chk.assumptions += ["documented reference values (README scale) are compared with the v2 referenceValue of the same run"]
