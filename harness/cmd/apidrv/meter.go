package main

import (
	"encoding/json"
	"fmt"
	"runtime"
	"sync"
	"time"

	"github.com/github/git-sizer/meter"
)

type meterPhase struct {
	Label      string  `json:"label"`
	Incs       int     `json:"incs"`
	Adds       []int64 `json:"adds"`
	IncDelayNs int     `json:"inc_delay_ns"` // busy/sleep delay between increments
	DelayEvery int     `json:"delay_every"`
	GapNs      int     `json:"gap_ns"` // between Done and the next Start
	PreDoneNs  int     `json:"pre_done_ns"`
}

type meterRecord struct {
	Seq  int    `json:"seq"`
	T    int64  `json:"t"`
	Data []byte `json:"data"`
	// worker phase index (as known by the writer at the time of the write; -1 = after last Done returned)
	Marker int `json:"marker"`
}

type recWriter struct {
	mu     sync.Mutex
	recs   []meterRecord
	marker int
	t0     time.Time
	// failEvery > 0: every failEvery-th write (and the very first one) reports an error, like a full or closed stderr
	failEvery int
}

func (w *recWriter) Write(p []byte) (int, error) {
	w.mu.Lock()
	defer w.mu.Unlock()
	n := len(w.recs)
	w.recs = append(w.recs, meterRecord{Seq: n, T: int64(time.Since(w.t0)), Data: append([]byte(nil), p...), Marker: w.marker})
	if w.failEvery > 0 && n%w.failEvery == 0 {
		return 0, errWriteFailed
	}
	return len(p), nil
}

var errWriteFailed = fmt.Errorf("injected write error")

func (w *recWriter) setMarker(m int) {
	w.mu.Lock()
	w.marker = m
	w.mu.Unlock()
}

func spin(ns int) {
	if ns <= 0 {
		return
	}
	if ns >= 50000 {
		time.Sleep(time.Duration(ns))
		return
	}
	t := time.Now()
	for time.Since(t) < time.Duration(ns) {
	}
}

// meterCase runs the real progress meter against a recording writer.
func meterCase(id interface{}, c rawCase) map[string]interface{} {
	var phases []meterPhase
	json.Unmarshal(c["phases"], &phases)
	periodUs := getInt(c, "period_us")
	settle := getInt(c, "settle_periods")
	if gm := getInt(c, "gomaxprocs"); gm > 0 {
		defer runtime.GOMAXPROCS(runtime.GOMAXPROCS(gm))
	}
	period := time.Duration(periodUs) * time.Microsecond
	g0 := runtime.NumGoroutine()
	w := &recWriter{t0: time.Now(), marker: 0, failEvery: getInt(c, "fail_every")}
	pm := meter.NewProgressMeter(w, period)
	type phaseEv struct {
		TStart int64 `json:"t_start"`
		TDone  int64 `json:"t_done"`  // just before Done() is called
		TDoneR int64 `json:"t_doner"` // just after Done() returned
		Total  int64 `json:"total"`
	}
	evs := make([]phaseEv, len(phases))
	for i, ph := range phases {
		w.setMarker(i)
		evs[i].TStart = int64(time.Since(w.t0))
		pm.Start(ph.Label)
		var total int64
		for k := 0; k < ph.Incs; k++ {
			pm.Inc()
			total++
			if ph.DelayEvery > 0 && k%ph.DelayEvery == 0 {
				spin(ph.IncDelayNs)
			}
		}
		for _, a := range ph.Adds {
			pm.Add(a)
			total += a
			spin(ph.IncDelayNs)
		}
		spin(ph.PreDoneNs)
		evs[i].Total = total
		evs[i].TDone = int64(time.Since(w.t0))
		pm.Done()
		evs[i].TDoneR = int64(time.Since(w.t0))
		spin(ph.GapNs)
	}
	w.setMarker(-1)
	time.Sleep(time.Duration(settle) * period)
	// let ticker goroutines notice
	g1 := runtime.NumGoroutine()
	for i := 0; i < 50 && g1 > g0; i++ {
		time.Sleep(period + time.Millisecond)
		g1 = runtime.NumGoroutine()
	}
	w.mu.Lock()
	recs := w.recs
	w.mu.Unlock()
	return map[string]interface{}{"records": recs, "phases": evs, "goroutines_before": g0, "goroutines_after": g1}
}
