"""C02 Biggest single objects are the true maxima."""
from ._camp import run_campaign, api_delay_stage
from .. import oracle as _O

LEVEL = "exploration"


def run(chk, b, tier):
    n = 240 if tier == "quick" else 15000

    def nt(f):
        return ["objects>=3"] + (["merges"] if f["merge_commits"] else []) if f["objects"] >= 3 else []

    run_campaign(chk, b, ["general", "trees", "dag", "roots"], n, ["maxobj"], "C02", nt,
                 "same campaign as C01; max_commit_size, max_parent_count, max_tree_entries, max_blob_size are compared "
                 "with the model's maxima over the reachable set (0 when the kind is absent). A third of the runs sit "
                 "behind the shim's permute mode so that the maximal object is met at different positions of the listing. "
                 "Non-trivial: >=3 reachable objects.", permute=0.35)
    api_delay_stage(chk, b, _O.MAXOBJ_KEYS + (["reference_count"] if "C02" == "C01" else []), "C02", 6 if tier == "quick" else 150)
    refcount_stage(chk, b, tier)
    chk.assumptions += ["reference model and generator trusted; generator self-checked against git"]


def _refcount_case(arg):
    """N references, N around the sizes an internal batch / queue could have; the references git lists last (and the one
    it lists first) are the only way to the biggest blob, tree, commit and parent list. The consumer of the reference
    listing is held back by --show-refs writing to a slow reader in half of the runs."""
    import os, shutil
    from .. import gen as G, run as R, parse_out as P
    N, sz, scratch = arg
    d = os.path.join(scratch, "refcount-%d" % N)
    os.makedirs(d)
    out = {"viol": [], "evals": 0, "N": N, "inconc": []}
    try:
        small = G.Blob(b"x\n")
        c0 = G.Commit(G.Tree([G.Entry(G.FILE, b"f", small)]), [], msg=b"base\n")
        m = G.Model()
        for i in range(N - 5):
            m.refs["refs/%s/n%05d" % (["heads", "tags", "remotes/o"][i % 3], i)] = c0
        big = G.Commit(G.Tree([G.Entry(G.FILE, b"big", G.Blob(b"B" * 100000))]), [c0], msg=b"biggest blob\n")
        widetree = G.Commit(G.Tree([G.Entry(G.FILE, b"e%03d" % j, small) for j in range(50)]), [c0], msg=b"widest tree\n")
        sides = [G.Commit(c0.tree, [c0], cts=1400000000 + j, msg=b"side %d\n" % j) for j in range(3)]
        octo = G.Commit(c0.tree, sides, msg=b"most parents\n")
        longmsg = G.Commit(c0.tree, [c0], msg=b"biggest commit " + b"m" * 9000 + b"\n")
        first = G.Commit(G.Tree([G.Entry(G.FILE, b"first", G.Blob(b"first only\n"))]), [c0], msg=b"first\n")
        m.refs["refs/zzz/w"] = big
        m.refs["refs/zzz/x"] = widetree
        m.refs["refs/zzz/y"] = octo
        m.refs["refs/zzz/z"] = longmsg
        m.refs["refs/aaa/first"] = first
        gitdir = G.write_model(m, os.path.join(d, "repo"), packed_refs=True)
        ex = _O.compute(list(m.refs.values()))
        for k, slow in enumerate([None, (4096, 2, 300), (1024, 1, 500), (65536, 10, 800)]):
            argv = ["--json", "--no-progress"] + (["--show-refs"] if slow or k == 0 else [])
            r = R.sizer(sz, gitdir, argv, env={"GOMAXPROCS": ["16", "1", "2", "4"][k]}, tmpdir=d, timeout=300, slow_stderr=slow)
            out["evals"] += 1
            if r.timed_out:
                out["inconc"].append("watchdog fired in a reference-count case")
                continue
            if r.rc != 0:
                out["viol"].append(("run-failed", {"N": N, "argv": argv, "stderr": r.err[-300:]}))
                continue
            js, _ = P.parse_json(r.out)
            bad = _O.compare_numeric(ex, js or {}, _O.MAXOBJ_KEYS + ["unique_commit_count"])
            if js and js.get("reference_count") != N:
                bad = (bad or []) + [["reference_count", N, js.get("reference_count")]]
            if bad:
                out["viol"].append(("maxima-differ-from-model", {"N": N, "argv": argv, "slow_stderr_reader": slow, "diffs": bad[:6]}))
    finally:
        shutil.rmtree(d, ignore_errors=True)
    return out


def refcount_stage(chk, b, tier):
    from .. import run as R
    ns = [255, 256, 257, 1023, 1024, 1025, 1030, 1040, 2049, 2064, 4100]
    if tier != "quick":
        ns += list(range(1026, 1030)) + list(range(1031, 1040)) + [511, 513, 3073, 3088, 8193, 8200, 16385, 16400, 65537, 65552]
    res = R.pmap(_refcount_case, [(N, b.sizer(), b.scratchdir()) for N in ns], chk=chk)
    for r in res:
        chk.count(r["evals"])
        for t in r["inconc"]:
            chk.inconc(t)
        for clause, det in r["viol"]:
            chk.violation("C02/reference-count-at-batch-boundaries/" + clause, det)
        if r["evals"]:
            chk.nontrivial(("refcount", r["N"]))
    chk.cov["reference_count_cases"] = ns
