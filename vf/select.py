"""Selection model (C06) and refgroup tally model (C07), written from the
property statements; no code shared with the implementation."""
import re


# ---------------------------------------------------------------------------
# matchers

def prefix_match(prefix, name):
    """A PREFIX matches only at a '/' component boundary."""
    if prefix == "":
        return True
    if prefix.endswith("/"):
        return name.startswith(prefix)
    return name == prefix or name.startswith(prefix + "/")


def regexp_match(pattern, name):
    """A /REGEXP/ must match the entire reference name."""
    return re.fullmatch(pattern, name) is not None


class Rule:
    """(polarity, kind, pattern): kind in prefix|regexp|group"""
    __slots__ = ("include", "kind", "pattern")

    def __init__(self, include, kind, pattern):
        self.include, self.kind, self.pattern = include, kind, pattern

    def __repr__(self):
        return "%s%s:%s" % ("+" if self.include else "-", self.kind, self.pattern)


def fold(rules, matches):
    """Last matching rule wins; default = opposite of the first rule's polarity.
    matches(rule) -> bool.  rules non-empty."""
    verdict = not rules[0].include
    for r in rules:
        if matches(r):
            verdict = r.include
    return verdict


# ---------------------------------------------------------------------------
# refgroups

BUILTIN = [
    ("branches", "Branches", [Rule(True, "prefix", "refs/heads/")]),
    ("tags", "Tags", [Rule(True, "prefix", "refs/tags/")]),
    ("remotes", "Remote-tracking refs", [Rule(True, "prefix", "refs/remotes/")]),
    ("pulls", "Pull request refs", [Rule(True, "prefix", "refs/pull/")]),
    ("changes", "Changeset refs", [Rule(True, "regexp", r"refs/changes/\d{2}/\d+/\d+")]),
    ("notes", "Git notes", [Rule(True, "prefix", "refs/notes/")]),
    ("stash", "Git stash", [Rule(True, "regexp", r"refs/stash")]),
]


class Group:
    def __init__(self, symbol):
        self.symbol = symbol
        self.name = None
        self.rules = []
        self.subs = []      # in creation order
        self.parent = None

    def own_match(self, ref):
        return fold(self.rules, lambda r: match_rule(r, ref, None))

    def display(self):
        if self.name is not None and self.name != "":
            return self.name
        return self.symbol.rsplit(".", 1)[-1]


def match_rule(r, ref, forest):
    if r.kind == "prefix":
        return prefix_match(r.pattern, ref)
    if r.kind == "regexp":
        return regexp_match(r.pattern, ref)
    if r.kind == "group":
        return forest.member(r.pattern, ref)
    raise ValueError(r.kind)


class Forest:
    """Refgroup hierarchy built from the built-ins plus the refgroup.* entries git reports
    (list of (key, value) with key = full lower-cased-section key as printed by git)."""

    def __init__(self, entries=()):
        self.groups = {}
        self.top = []
        self.order = []
        for sym, name, rules in BUILTIN:
            g = self.get(sym)
            g.name = name
            g.rules = list(rules)
        seen = []
        for key, value in entries:
            if not key.startswith("refgroup."):
                continue
            rest = key[len("refgroup."):]
            if "." not in rest:
                continue
            sym, field = rest.rsplit(".", 1)
            if sym == "":
                continue
            if sym not in seen:
                seen.append(sym)
        for sym in seen:
            g = self.get(sym)
            for key, value in entries:
                if not key.startswith("refgroup." + sym + "."):
                    continue
                field = key[len("refgroup." + sym + "."):]
                if field == "name":
                    g.name = value
                elif field == "include":
                    g.rules.append(Rule(True, "prefix", value))
                elif field == "exclude":
                    g.rules.append(Rule(False, "prefix", value))
                elif field == "includeregexp":
                    g.rules.append(Rule(True, "regexp", value))
                elif field == "excluderegexp":
                    g.rules.append(Rule(False, "regexp", value))

    def get(self, sym):
        if sym in self.groups:
            return self.groups[sym]
        g = Group(sym)
        if "." in sym:
            p = self.get(sym.rsplit(".", 1)[0])
            g.parent = p
            self.groups[sym] = g
            p.subs.append(g)
        else:
            self.groups[sym] = g
            self.top.append(g)
        return g

    def undefined(self):
        """Symbols of leaf groups without rules (the program rejects these as 'not defined')."""
        return [s for s, g in self.groups.items() if not g.rules and not g.subs]

    # "@REFGROUP matches exactly the members of that group": a member satisfies the
    # group's own rules and all of its ancestors' rules; a group without rules of its
    # own is the union of its subgroups.
    def member(self, sym, ref):
        g = self.groups[sym]
        a = g.parent
        while a is not None:
            if a.rules and not a.own_match(ref):
                return False
            a = a.parent
        return self._matches(g, ref)

    def _matches(self, g, ref):
        if g.rules:
            return g.own_match(ref)
        return any(self._matches(s, ref) for s in g.subs)

    # tallies ---------------------------------------------------------------
    def _tally(self, g, ref):
        if g.rules:
            if not g.own_match(ref):
                return []
            subsyms = []
            for s in g.subs:
                subsyms += self._tally(s, ref)
            syms = [g.symbol]
            if g.subs and not subsyms:
                syms.append(g.symbol + ".other")
            return syms + subsyms
        subsyms = []
        for s in g.subs:
            subsyms += self._tally(s, ref)
        return ([g.symbol] + subsyms) if subsyms else []

    def tally(self, ref, traversed):
        """Symbols under which `ref` is tallied ('' = top-level 'refs to walk')."""
        if not traversed:
            return ["ignored"]
        subsyms = []
        for g in self.top:
            subsyms += self._tally(g, ref)
        syms = [""]
        if self.top and not subsyms:
            syms.append("other")
        return syms + subsyms

    def display_order(self):
        """(symbol, display name, depth) in presentation order (depth-first, Other after subgroups, Ignored last)."""
        out = []

        def rec(g, depth):
            out.append((g.symbol, g.display(), depth))
            for s in g.subs:
                rec(s, depth + 1)
            if g.subs:
                out.append((g.symbol + ".other", "Other", depth + 1))

        for g in self.top:
            rec(g, 0)
        out.append(("other", "Other", 0))
        out.append(("ignored", "Ignored", 0))
        return out


# ---------------------------------------------------------------------------
# command-line options -> rules

FLAG_RULES = {
    "branches": ("prefix", "refs/heads"), "tags": ("prefix", "refs/tags"), "remotes": ("prefix", "refs/remotes"),
    "notes": ("prefix", "refs/notes"), "stash": ("regexp", "refs/stash"),
}


def parse_opt(tokens):
    """tokens: list of argv words for ONE selection option; returns Rule or raises ValueError."""
    t = tokens[0]
    val = None
    if "=" in t and t.startswith("--"):
        t, val = t.split("=", 1)
    elif len(tokens) > 1:
        val = tokens[1]
    name = t[2:]
    neg = False
    base = name
    if name.startswith("no-") and name[3:] in FLAG_RULES:
        neg, base = True, name[3:]
    if base in FLAG_RULES:
        kind, pat = FLAG_RULES[base]
        b = True
        if val is not None:
            b = {"true": True, "false": False, "1": True, "0": False, "t": True, "f": False}[val.lower()]
        inc = (not neg) == b
        return Rule(inc, kind, pat)
    if name in ("include", "exclude"):
        inc = name == "include"
        if len(val) >= 2 and val.startswith("/") and val.endswith("/"):
            return Rule(inc, "regexp", val[1:-1])
        if val.startswith("@"):
            return Rule(inc, "group", val[1:])
        return Rule(inc, "prefix", val)
    if name in ("include-regexp", "exclude-regexp"):
        return Rule(name == "include-regexp", "regexp", val)
    if name == "refgroup":
        return Rule(True, "group", val)
    raise ValueError(tokens)


def selected(rules, nroots, ref, forest):
    """Is `ref` traversed?  (C06 statement)"""
    if not rules:
        return nroots == 0
    return fold(rules, lambda r: match_rule(r, ref, forest))


def parse_config_z(out):
    """NUL-first parse of `git config --list -z` output: list of (key, value or None)."""
    ents = []
    for rec in out.split(b"\0"):
        if rec == b"":
            continue
        if b"\n" in rec:
            k, v = rec.split(b"\n", 1)
            ents.append((k, v))
        else:
            ents.append((rec, None))
    return ents
