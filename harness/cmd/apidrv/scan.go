package main

import (
	"context"
	"encoding/json"
	"strings"
	"sync"
	"sync/atomic"
	"time"

	"github.com/github/git-sizer/git"
	"github.com/github/git-sizer/sizes"
)

// scanCase runs the library entry points the command line tool uses (CollectReferences + ScanRepositoryUsingGraph) on a real
// repository, with a progress meter and a reference grouper that pause at seeded points.  The pauses sit exactly where the
// real code calls out of its goroutines (meter.Progress is a public interface), so they stretch real interleavings only.
//
// case: {"dir": git dir, "names": style, "roots": [spellings], "delays": [{"phase": substring of the phase title,
//        "op": "inc"|"start"|"done"|"add"|"categorize", "us": pause, "every": k, "from": first call}]}
type delayRule struct {
	Phase string `json:"phase"`
	Op    string `json:"op"`
	Us    int    `json:"us"`
	Every int    `json:"every"`
	From  int    `json:"from"`
	Once  bool   `json:"once"`
}

type delayMeter struct {
	mu     sync.Mutex
	phase  string
	rules  []delayRule
	n      int64
	totals map[string]int64
	order  []string
}

func (m *delayMeter) pause(op string, k int64) {
	m.mu.Lock()
	ph := m.phase
	m.mu.Unlock()
	for _, r := range m.rules {
		if r.Op != op || !strings.Contains(ph, r.Phase) {
			continue
		}
		every := int64(r.Every)
		if every <= 0 {
			every = 1
		}
		if r.Once {
			// a single long pause at the From-th call of the phase
			if k == int64(r.From) || (r.From == 0 && k == 1) {
				time.Sleep(time.Duration(r.Us) * time.Microsecond)
			}
			continue
		}
		if k >= int64(r.From) && k%every == 0 {
			time.Sleep(time.Duration(r.Us) * time.Microsecond)
		}
	}
}

func (m *delayMeter) Start(format string) {
	m.mu.Lock()
	m.phase = format
	m.order = append(m.order, format)
	m.mu.Unlock()
	atomic.StoreInt64(&m.n, 0)
	m.pause("start", 0)
}

func (m *delayMeter) Inc() {
	k := atomic.AddInt64(&m.n, 1)
	m.pause("inc", k)
}

func (m *delayMeter) Add(delta int64) {
	k := atomic.AddInt64(&m.n, delta)
	m.pause("add", k)
}

func (m *delayMeter) Done() {
	m.pause("done", 0)
	m.mu.Lock()
	if m.totals == nil {
		m.totals = map[string]int64{}
	}
	m.totals[m.phase] = atomic.LoadInt64(&m.n)
	m.phase = ""
	m.mu.Unlock()
}

type allGrouper struct {
	rules []delayRule
	n     int64
}

func (g *allGrouper) Categorize(refname string) (bool, []sizes.RefGroupSymbol) {
	k := atomic.AddInt64(&g.n, 1)
	for _, r := range g.rules {
		if r.Op == "categorize" && k >= int64(r.From) && (r.Every <= 1 || k%int64(r.Every) == 0) {
			time.Sleep(time.Duration(r.Us) * time.Microsecond)
		}
	}
	return true, nil
}

func (g *allGrouper) Groups() []sizes.RefGroup { return nil }

func scanCase(id interface{}, c rawCase) map[string]interface{} {
	dir := getStr(c, "dir")
	var rules []delayRule
	if r, ok := c["delays"]; ok {
		json.Unmarshal(r, &rules)
	}
	var rootNames []string
	if r, ok := c["roots"]; ok {
		json.Unmarshal(r, &rootNames)
	}
	var ns sizes.NameStyle
	style := getStr(c, "names")
	if style == "" {
		style = "full"
	}
	ns.Set(style)
	res := map[string]interface{}{}
	repo, err := git.NewRepositoryFromGitDir(dir)
	if err != nil {
		res["err"] = "open: " + err.Error()
		return res
	}
	ctx := context.Background()
	rg := &allGrouper{rules: rules}
	refRoots, err := sizes.CollectReferences(ctx, repo, rg)
	if err != nil {
		res["err"] = "references: " + err.Error()
		return res
	}
	roots := make([]sizes.Root, 0, len(refRoots)+len(rootNames))
	for _, rr := range refRoots {
		roots = append(roots, rr)
	}
	for _, name := range rootNames {
		oid, err := repo.ResolveObject(name)
		if err != nil {
			res["err"] = "root: " + err.Error()
			return res
		}
		roots = append(roots, sizes.NewExplicitRoot(name, oid))
	}
	pm := &delayMeter{rules: rules}
	hs, err := sizes.ScanRepositoryUsingGraph(ctx, repo, roots, ns, pm)
	if err != nil {
		res["err"] = "scan: " + err.Error()
		return res
	}
	b, err := json.Marshal(hs)
	if err != nil {
		res["err"] = "marshal: " + err.Error()
		return res
	}
	res["json"] = string(b)
	pm.mu.Lock()
	res["phase_totals"] = pm.totals
	res["phases"] = pm.order
	pm.mu.Unlock()
	res["references_seen"] = len(refRoots)
	return res
}
