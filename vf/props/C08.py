"""C08 Footnotes name a real witness of each maximum."""
from ._camp import run_campaign

LEVEL = "exploration"


def sigfn(facet, kind, key, det):
    if facet != "witness":
        return None
    if kind == "desc-unresolvable":
        desc = det.get("desc") or b""
        if isinstance(desc, str):
            desc = desc.encode("utf-8", "surrogateescape")
        if desc.startswith(b"???"):
            return "C08/desc-unresolvable/unnamed-tree-prefix-???"
        for r in det.get("tree_roots", []):
            rb = r.encode()
            if desc.startswith(rb + b"/") and b":" not in rb:
                return "C08/desc-unresolvable/tree-root-joined-with-slash"
        if b"\n" in desc:
            return "C08/desc-unresolvable/lf-in-name"
        return "C08/desc-unresolvable/other/" + key
    return "C08/%s/%s" % (kind, key)


def worktree_head_stage(chk, b, tier):
    """ROOT spellings that mean something else in every worktree (HEAD, HEAD~1, HEAD:path): started inside a linked worktree
    whose HEAD differs from the main one, every cited object must be reachable from THAT worktree's HEAD and every description
    must resolve to it there."""
    import os
    import random
    import shutil
    import subprocess
    from .. import gen as G
    from .. import oracle as O
    from .. import parse_out as P
    from .. import run as R
    rng = random.Random("C08wt|%d" % R.SEED)
    d = os.path.join(b.scratchdir(), "wthead")
    shutil.rmtree(d, ignore_errors=True)
    os.makedirs(d)
    n = 0
    for k in range(3 if tier == "quick" else 40):
        pool = G.Pool(rng)
        base = G.Commit(pool.new_tree(max_depth=2, allow_empty=False), [], cts=1500000000, msg=b"base\n")
        main = G.Commit(G.Tree([G.Entry(G.FILE, b"main.bin", pool.new_blob(5000)), G.Entry(G.TREE, b"d", pool.new_tree(max_depth=1, allow_empty=False))]),
                        [base], cts=1500000100, msg=b"main side\n")
        other = G.Commit(G.Tree([G.Entry(G.FILE, b"other.bin", pool.new_blob(9000 + k)), G.Entry(G.TREE, b"sub", pool.new_tree(max_depth=2, allow_empty=False))]),
                         [base], cts=1500000200, msg=b"worktree side " * 30 + b"\n")
        m = G.Model()
        m.bare = False
        m.refs = {"refs/heads/main": main, "refs/heads/other": other}
        work = os.path.join(d, "r%d" % k)
        G.write_model(m, work)
        wt = os.path.join(d, "r%d-wt" % k)
        p = subprocess.run([G.REAL_GIT, "-C", work, "worktree", "add", "--detach", "--no-checkout", wt, other.oid], env=G.git_env(),
                           stdout=subprocess.PIPE, stderr=subprocess.PIPE)
        if p.returncode != 0:
            chk.inconc("worktree add failed: %r" % p.stderr[:100])
            continue
        reach = O.reachable([other])
        for roots in (["HEAD"], ["HEAD~1", "HEAD"], ["HEAD:sub", "HEAD^{tree}"], ["@"]):
            r = R.sizer(b.sizer(), wt, ["--json", "--json-version=2", "--no-progress", "--names=full"] + roots, tmpdir=d)
            chk.count()
            n += 1
            if r.rc != 0:
                chk.violation("C08/linked-worktree-head/run-failed", {"roots": roots, "stderr": r.err[-300:].decode("utf-8", "replace")})
                continue
            js, _ = P.parse_json(r.out)
            for key, item in (js or {}).items():
                if not isinstance(item, dict) or "objectName" not in item:
                    continue
                oid, desc = item["objectName"], item.get("objectDescription")
                if oid not in reach:
                    chk.violation("C08/linked-worktree-head/cited-object-not-reachable-from-this-worktrees-HEAD",
                                  {"metric": key, "oid": oid, "description": desc, "roots": roots})
                elif desc:
                    q = subprocess.run([G.REAL_GIT, "-C", wt, "--no-replace-objects", "rev-parse", "--verify", "--end-of-options", desc],
                                       env=G.git_env(), stdout=subprocess.PIPE, stderr=subprocess.PIPE)
                    got = q.stdout.decode().strip()
                    if got != oid:
                        chk.violation("C08/linked-worktree-head/description-resolves-elsewhere-in-this-worktree",
                                      {"metric": key, "oid": oid, "description": desc, "resolves_to": got or None, "roots": roots})
            chk.nontrivial(("wthead", k, tuple(roots)))
    chk.cov["linked_worktree_head_runs"] = n
    shutil.rmtree(d, ignore_errors=True)


def run(chk, b, tier):
    n = 240 if tier == "quick" else 12000

    def nt(f):
        k = []
        if f["witnesses_cited"] >= 1:
            k.append("cites>=1")
            if f["described"]:
                k.append("has-description")
        return k

    run_campaign(chk, b, ["roots", "general", "hostile-names", "trees", "roots", "dag"], n, ["witness"], "C08", nt,
                 "campaign with emphasis on root kinds (maxima reachable only through a tag, a ref to a tree/blob, a ROOT "
                 "spelled rev:path / rev^{tree} / oid / abbreviation; branch+tag with the same short name; hostile file "
                 "names). For each of the 12 cited metrics (JSON v1 and the -v table footnotes, raw bytes): oid reachable, "
                 "right kind, in the model's witness set; description resolved by `git rev-parse --verify` must give "
                 "exactly that oid; --names=hash shows no description, --names=none cites nothing. 30% of runs behind the "
                 "permuting shim. Non-trivial: run cites >=1 object.",
                 want_table=True, names_modes=("full", "full", "full", "hash", "none"), permute=0.3, sigfn=sigfn, cut_refs=0.08, tail_sweep=12)
    worktree_head_stage(chk, b, tier)
    chk.assumptions += ["git rev-parse is the judge of whether a description resolves",
                        "reference model's witness sets (all objects attaining the maximum) trusted"]
