"""C19 Reports are well-formed for any names."""
import os
import random
import re
import shutil

from .. import gen as G
from .. import oracle as O
from .. import parse_out as P
from .. import run as R
from .C07 import cfg_quote_subsection, cfg_quote_value

LEVEL = "exploration"

V1_FIXED = set(O.CAPS) | {"reference_groups"}
V2_ITEM_KEYS = {"description", "value", "unit", "prefixes", "referenceValue", "levelOfConcern"}
V2_OPT = {"objectName", "objectDescription"}

HOSTILE_REF_PARTS = [x.encode() for x in ["é", "日本", "a'b", 'q"t', "x{y}", "a+b", "(p)", "per%cent", "semi;colon", "pipe|bar",
                                           "dollar$", "amp&", "ex!cl", "comma,", "eq=", "at@x", "hash#", "tab", "-dash",
                                           "back`tick", "<lt>", "cov-100%", "%", "%%", "a%\"b", "%s%d%v", "%!", "x%"]] + \
    [b"\xff\xfe", b"\xc3\x28", b"lat\xe9in"]
SYMBOLS = ["R\\u0026D", "lt\\u003c", "amp&", "grp", "My Group", "q\"t", "b\\s", "été", "\xff\xfebad", "a\xff", "a\xfe", "x y z", "[1]", "tab\there", "semi;", "#h", "nl\nsym"]
DISPLAY = ["R\\u0026D dept", "a\\u003eb", "x\\u2028y", "<b>&amp;</b>", "Nice", "näme", "two  spaces", "| pipe | in | name", "ends with bracket ]", "[1] starts", "mid [2] dle", "\xff\xfe", "a\tb",
           "x" * 60, "quote\"s", "new\nline", "* star", "",
           "inj\n|     * y                [7] |     1     |                                |"]


def hostile_refname(rng):
    ns = rng.choice([b"refs/heads/", b"refs/tags/", b"refs/remotes/origin/", b"refs/misc/"])
    parts = [rng.choice(HOSTILE_REF_PARTS) for _ in range(rng.randint(1, 2))]
    return ns + b"/".join(parts)


def one_case(arg):
    seed, idx, sz, scratch = arg[:4]
    rng = random.Random("C19|%d|%d" % (seed, idx))
    d = os.path.join(scratch, "w%d" % idx)
    os.makedirs(d)
    out = {"viol": [], "evals": 0, "sample": None, "hostile": False, "cites": 0, "inconc": []}
    try:
        prof = rng.choice(["spaces", "quotes", "ctrl", "nonutf8", "revsyntax", "utf8", "lf", "mixed", "long", "percent", "percent", "escapes",
                           "escapes"])
        namegen = (lambda r: G.name_hostile(r, prof)) if prof != "mixed" else (lambda r: G.name_hostile(r, r.choice(
            ["spaces", "quotes", "ctrl", "nonutf8", "revsyntax", "utf8", "plain", "percent", "escapes"])))
        pool = G.Pool(rng, namegen)
        m = G.Model()
        commits = G.gen_dag(rng, pool, rng.randint(1, 6), hostile=False)
        # metrics arranged so that several share a witness and others do not
        big = pool.new_blob(7000)
        # one subdirectory that holds the maxima of several metrics at once (entries, files, links, submodules): the same
        # description is then cited several times and has to be one footnote
        shared = G.Tree([G.Entry(G.FILE, b"s%03d" % j, pool.new_blob(1)) for j in range(40)] +
                        [G.Entry(G.LINK, b"sl%d" % j, pool.new_blob(2)) for j in range(4)] +
                        [G.Entry(G.GITLINK, b"sm%d" % j, "%040x" % (50 + j)) for j in range(3)])
        t = G.Tree([G.Entry(G.FILE, namegen(rng), big), G.Entry(G.LINK, namegen(rng) + b"l", pool.new_blob(3)),
                    G.Entry(G.GITLINK, namegen(rng) + b"g", "%040x" % 7), G.Entry(G.TREE, namegen(rng) + b"d", pool.new_tree(max_depth=3)),
                    G.Entry(G.TREE, namegen(rng) + b"shared", shared)])
        commits.append(G.Commit(t, commits[-1:], msg=b"x" * rng.choice([10, 3000]) + b"\n"))
        raw_refs = {}
        if idx % 5 == 4:
            # every cited metric is maximised by a different object: 10+ distinct footnotes in one table
            specials = [
                G.Tree([G.Entry(G.GITLINK, b"m%03d" % j, "%040x" % (j + 1)) for j in range(300)]),                     # entries + submodules
                G.Tree([G.Entry(G.FILE, namegen(rng) + b"%d" % j, pool.new_blob(1)) for j in range(200)]),            # files
                G.Tree([G.Entry(G.FILE, b"huge", pool.new_blob(200000))]),                                              # bytes + biggest blob
                G.Tree([G.Entry(G.LINK, b"l%d" % j, pool.new_blob(2)) for j in range(100)]),                            # links
                G.Tree([G.Entry(G.TREE, b"d%03d" % j, G.Tree([G.Entry(G.FILE, b"f", pool.new_blob(j + 2))])) for j in range(120)]),  # directories
            ]
            deep = G.Tree([G.Entry(G.FILE, b"x", pool.new_blob(3))])
            for _ in range(40):
                deep = G.Tree([G.Entry(G.TREE, b"q", deep)])
            specials.append(deep)                                                                                      # depth
            specials.append(G.Tree([G.Entry(G.TREE, b"L" * 150, G.Tree([G.Entry(G.FILE, b"N" * 200, pool.new_blob(4))]))]))   # length
            roots_ = [G.Commit(tr, [], msg=b"s%d\n" % j) for j, tr in enumerate(specials)]
            fat = G.Commit(G.Tree([]), [], msg=b"z" * 9000 + b"\n")                                                   # biggest commit
            octo = G.Commit(G.Tree([]), roots_ + [fat], msg=b"octopus\n")                                             # most parents
            commits = roots_ + [fat, octo]
            raw_refs[b"refs/heads/octo" + (b"/" + b"L" * 140 if prof == "long" else b"")] = octo
        for i in range(rng.randint(1, 5)):
            # (with the long-name profile the reference names are long too: the description of a root tree, which is cited for
            # several metrics at once, then exceeds a hundred characters)
            raw_refs[hostile_refname(rng) + (b"/" + b"L" * 140 if prof == "long" else b"")] = rng.choice(commits)
        tg = G.Tag(commits[-1], name=b"t")
        raw_refs[hostile_refname(rng) + b"tag"] = G.Tag(tg, name=b"t2")
        # refgroup config with hostile symbols / display names
        cfg = []
        syms = rng.sample(SYMBOLS, rng.randint(0, 4))
        for s in syms:
            if "\n" in s:
                continue
            cfg.append('[refgroup "%s"]\n\tinclude = refs/heads\n' % cfg_quote_subsection(s))
            if rng.random() < 0.7:
                cfg.append('[refgroup "%s"]\n\tname = %s\n' % (cfg_quote_subsection(s), cfg_quote_value(rng.choice(DISPLAY))))
        m.config = "".join(cfg)
        work = os.path.join(d, "repo")
        gitdir = G.init_repo(work, bare=True, config=m.config)
        # refs with arbitrary bytes are written through packed-refs (surrogateescape keeps the raw bytes)
        ok_refs = {}
        for nb, o in sorted(raw_refs.items()):
            p = G.rgit(gitdir, "check-ref-format", nb, check=False)
            if p.returncode != 0:
                continue
            if any(x != nb and (x.startswith(nb + b"/") or nb.startswith(x + b"/")) for x in ok_refs):
                continue
            ok_refs[nb] = o
        if not ok_refs:
            ok_refs[b"refs/heads/main"] = commits[-1]
        with open(os.path.join(gitdir, "packed-refs"), "wb") as f:
            for nb in sorted(ok_refs):
                f.write(ok_refs[nb].oid.encode() + b" " + nb + b"\n")
        objdir = os.path.join(gitdir, "objects")
        seen = {}
        stack = list(ok_refs.values())
        while stack:
            o = stack.pop()
            if o.oid in seen:
                continue
            seen[o.oid] = o
            stack.extend(G.children(o))
        for o in seen.values():
            G.write_loose(objdir, o)
        p = G.rgit(gitdir, "for-each-ref", "--format=%(refname)", check=False)
        listed = [x for x in p.stdout.split(b"\n") if x]
        if p.returncode != 0 or sorted(listed) != sorted(ok_refs):
            out["inconc"].append("git lists other refs than written: %r" % p.stderr[:100])
            return out
        p = G.rgit(gitdir, "config", "--list", "-z", check=False)
        if p.returncode != 0:
            out["inconc"].append("git cannot read generated config")
            return out
        ex = O.compute(list(ok_refs.values()))
        # a ROOT spelled with a hostile path
        roots = []
        ents = [e for e in t.entries if e.kind != G.GITLINK]
        e = rng.choice(ents)
        rootsp = None
        try:
            ref0 = sorted(ok_refs)[0].decode("utf-8")
            rootsp = ref0 + ":" + e.name.decode("utf-8")
            if "\0" in rootsp or commits[-1].oid != ok_refs[sorted(ok_refs)[0]].oid:
                rootsp = commits[-1].oid + ":" + e.name.decode("utf-8")
        except UnicodeDecodeError:
            rootsp = None
        if rootsp and rng.random() < 0.5:
            pr = G.rgit(gitdir, "rev-parse", "--verify", "--end-of-options", rootsp, check=False)
            if pr.returncode == 0:
                roots = [rootsp]
        lf = prof == "lf" or any(b"\n" in n for n in [en.name for tr in seen.values() if tr.kind == "tree" for en in tr.entries])
        # the recorded finding needs the name itself to carry LF followed by citation-shaped text ("ab\n[9]  cd"); a name with a
        # plain LF is printed over two lines, which the parser joins, and breaks nothing
        lf_cite = any(re.search(rb"\n\s*\[\d+\]", n) for n in [en.name for tr in seen.values() if tr.kind == "tree" for en in tr.entries]
                      + [x.encode("utf-8", "surrogateescape") if isinstance(x, str) else x for x in roots])
        lfname = any("\n" in s for s in [x for x in DISPLAY if ('name = ' + cfg_quote_value(x)) in m.config])
        out["hostile"] = True
        sel = ["--branches", "--tags", "--remotes", "--include", "refs/misc"] if roots else []
        ctx = {"repo": [seed, idx], "profile": prof, "roots": roots}
        # --- JSON v1
        r = R.sizer(sz, gitdir, ["--json", "--no-progress"] + sel + roots, tmpdir=d)
        out["evals"] += 1
        if r.rc != 0:
            out["viol"].append(("C19/run-failed/json-v1", dict(ctx, stderr=r.err[-300:])))
        else:
            js, probs = P.parse_json(r.out)
            probs = [p_ for p_ in probs if not p_.startswith("duplicate key")]
            if js is None or probs:
                out["viol"].append(("C19/json-v1-invalid", dict(ctx, problems=probs, out=r.out[:200])))
            else:
                exr = O.compute(list(ok_refs.values()) + ([seen_lookup(seen, gitdir, roots[0])] if roots else []))
                want = set(V1_FIXED)
                for wk, (vk, kind) in O.WITNESS.items():
                    if kind == "commit":
                        if exr.true["unique_commit_count"] > 0:
                            want.add(wk)
                    elif exr.true[vk] > 0:
                        want.add(wk)
                if set(js) != want:
                    out["viol"].append(("C19/json-v1-key-set", dict(ctx, extra=sorted(set(js) - want), missing=sorted(want - set(js)))))
        # --- JSON v2
        r = R.sizer(sz, gitdir, ["--json", "--json-version=2", "--no-progress"] + sel + roots, tmpdir=d)
        out["evals"] += 1
        if r.rc != 0:
            out["viol"].append(("C19/run-failed/json-v2", dict(ctx, stderr=r.err[-300:])))
        else:
            j2, probs = P.parse_json(r.out)
            probs = [p_ for p_ in probs if not (p_.startswith("duplicate key") and "refgroup." in p_)]
            if j2 is None or probs:
                out["viol"].append(("C19/json-v2-invalid", dict(ctx, problems=probs, out=r.out[:200])))
            else:
                fixed = {k for k in j2 if not k.startswith("refgroup.")}
                if fixed != set(P.V2_TO_V1):
                    out["viol"].append(("C19/json-v2-key-set", dict(ctx, extra=sorted(fixed - set(P.V2_TO_V1)), missing=sorted(set(P.V2_TO_V1) - fixed))))
                for k, it in j2.items():
                    ks = set(it) if isinstance(it, dict) else set()
                    if not (V2_ITEM_KEYS <= ks <= V2_ITEM_KEYS | V2_OPT):
                        out["viol"].append(("C19/json-v2-item-keys", dict(ctx, item=k, keys=sorted(ks))))
                        break
        # --- table
        r = R.sizer(sz, gitdir, ["-v", "--no-progress"] + sel + roots, tmpdir=d)
        out["evals"] += 1
        if r.rc != 0:
            out["viol"].append(("C19/run-failed/table", dict(ctx, stderr=r.err[-300:])))
        else:
            tab = P.parse_table(r.out, lenient=True)
            probs = P.footnote_discipline(tab)
            out["cites"] = len([x for x in tab.rows if x.citation is not None])
            if probs:
                # the recorded finding is about what a name's OWN line feed does to the footnote block. Neutralise exactly
                # those line feeds (each name occurs verbatim in a correct table) and judge again: if the table is then in
                # order, the names alone explain the problem; if not, something else is wrong as well
                lfnames = sorted({n for n in [en.name for tr in seen.values() if tr.kind == "tree" for en in tr.entries] if b"\n" in n},
                                 key=lambda n: -len(n))
                neutral = r.out
                for n in lfnames:
                    neutral = neutral.replace(n, n.replace(b"\n", b"\\n"))
                rest = P.footnote_discipline(P.parse_table(neutral, lenient=True)) if lfnames else probs
                if lf and lf_cite and not rest:
                    cls = "lf-in-cited-path"
                elif lf and any(b"\n" in tx for tx in _footnote_region(r.out)):
                    cls = "lf-in-cited-path/not-explained-by-the-names-own-line-feeds"
                    probs = rest or probs
                elif lfname:
                    cls = "lf-in-refgroup-display-name"
                else:
                    cls = "other"
                out["viol"].append(("C19/table-footnote-discipline/" + cls, dict(ctx, problems=probs[:3])))
            else:
                # the number of distinct footnotes equals the number of distinct cited objects of the model-independent count
                pass
        if idx % 2 == 0:
            shimdir = arg[4] if len(arg) > 4 else None
            for k in range(3):
                sigf = rng.choice(["config --list", "config --list", "rev-parse --git-path", "for-each-ref", "rev-list", "cat-file --batch",
                                   "config --get sizer.names", "config --get sizer.threshold"])
                rule = {"sig": sigf, "ord": rng.choice([0, 0, 1]), "mode": "fault", "term": rng.choice(["exit:128", "exit:2", "sig:KILL"]),
                        "after_bytes": rng.choice([0, 0, 50, 1 << 40]), "before_exec": rng.random() < 0.3}
                fmt = rng.choice([["--json"], ["--json", "--json-version=2"], ["-v"]])
                plan = R.make_plan(os.path.join(d, "fp%d" % k), [rule])
                rf = R.sizer(sz, gitdir, fmt + ["--no-progress"] + sel + roots, shimdir=shimdir, plan=plan, tmpdir=d, timeout=30)
                out["evals"] += 1
                if rf.timed_out:
                    continue
                if rf.rc != 0:
                    if rf.out.strip():
                        out["viol"].append(("C19/fault/stdout-not-empty-on-failure", dict(ctx, rule=rule, out=rf.out[:160])))
                    continue
                if "--json" in fmt:
                    jf, pf = P.parse_json(rf.out)
                    pf = [x for x in pf if not x.startswith("duplicate key")]
                    if jf is None or pf:
                        out["viol"].append(("C19/fault/exit-0-with-malformed-json", dict(ctx, rule=rule, problems=pf, out=rf.out[:160])))
                else:
                    tf = P.parse_table(rf.out, lenient=True)
                    if tf.errors:
                        out["viol"].append(("C19/fault/exit-0-with-malformed-table", dict(ctx, rule=rule, errors=tf.errors[:2], out=rf.out[:160])))
                out["fault_runs"] = out.get("fault_runs", 0) + 1
        if idx % 6 == 1:
            # stdout that stops accepting bytes at a line boundary of the report (full disk, quota): the run may fail, but one
            # that reports success must have delivered the complete, well-formed report
            for fmt in (["-v"], ["--json"], ["--json", "--json-version=2"]):
                argv_ = fmt + ["--no-progress"] + sel + roots
                base_, sweep = R.output_limit_sweep(sz, gitdir, argv_, tmpdir=d, max_points=24, rng=rng)
                for n_, r_, w_ in sweep:
                    out["evals"] += 1
                    out["limited_stdout_runs"] = out.get("limited_stdout_runs", 0) + 1
                    if r_.rc == 0 and not r_.timed_out and r_.out != base_:
                        what = "table" if fmt == ["-v"] else "json"
                        out["viol"].append(("C19/output-limit/exit-0-with-incomplete-" + what,
                                            dict(ctx, argv=argv_, limit=n_, accepted=w_, full_length=len(base_),
                                                 tail=r_.out[-200:].decode("utf-8", "replace"))))
        out["sample"] = {"profile": prof, "refs": [x.decode("utf-8", "replace") for x in sorted(ok_refs)][:3], "roots": roots,
                         "refgroup_symbols": syms, "citations_in_table": out["cites"]}
    finally:
        shutil.rmtree(d, ignore_errors=True)
    return out


def _footnote_region(out):
    """Footnote texts as the program must have produced them: split on '\\n[' boundaries is ambiguous with LF in names, so
    return the raw region after the table rows as one blob."""
    i = out.rfind(b" |\n\n[")
    return [out[i + 4:]] if i >= 0 else []


def seen_lookup(seen, gitdir, spelling):
    oid = G.rgit(gitdir, "rev-parse", "--verify", "--end-of-options", spelling).stdout.decode().strip()
    return seen[oid]


def rerender_stage(chk, b, tier):
    """Library use: one scan result rendered several times (a summary, then details; the same report again; another name
    style). Every rendering on its own must obey the footnote discipline, and renderings with equal parameters are equal."""
    import base64
    from .. import oracle as O
    drv = b.apidrv()
    rng = random.Random("C19r|%d" % R.SEED)
    ncases = 40 if tier == "quick" else 2000
    cases = []
    hexd = lambda: "%040x" % rng.getrandbits(160)
    b64 = lambda x: base64.b64encode(x).decode()
    for i in range(ncases):
        c, t, sdir, blob, tag = hexd(), hexd(), hexd(), hexd(), hexd()
        fields = {k: rng.choice([0, 1, 7, 1500, 10 ** 6, O.CAPS[k]]) for k in O.CAPS if k != "reference_count"}
        fields["reference_count"] = 3
        ops = []
        targets = {"max_blob_size_blob": (blob, "blob"), "max_tree_entries_tree": (sdir, "tree"), "max_commit": (c, "commit"),
                   "max_parent_count_commit": (c, "commit"), "max_path_depth_tree": (t, "tree"), "max_path_length_tree": (t, "tree"),
                   "max_expanded_blob_size_tree": (sdir, "tree"), "max_tag_depth_tag": (tag, "tag"),
                   "max_expanded_tree_count_tree": (hexd(), "tree")}
        for key, (oid, typ) in targets.items():
            if rng.random() < 0.85:
                ops.append({"op": "req", "oid": oid, "type": typ, "key": key})
        fname = rng.choice([b"plain.txt", b"with space", b"q\"uote", b"tab\there", b"caf\xc3\xa9", b"\xff\xfe", b"x" * 90])
        ops += [{"op": "tree", "oid": t, "name": b64(b"dir"), "child": sdir}, {"op": "tree", "oid": sdir, "name": b64(fname), "child": blob},
                {"op": "commit", "oid": c, "tree": t}, {"op": "name", "name": b64(b"refs/heads/main"), "oid": c},
                {"op": "name", "name": b64(b"refs/tags/v1"), "oid": tag}]
        groups = [{"symbol": "", "name": "Refs"}, {"symbol": "branches", "name": "Branches"}, {"symbol": "tags", "name": "Tags"}]
        cases.append({"id": i, "fields": fields, "groups": groups, "group_counts": {"": 3, "branches": 2, "tags": 1}, "resolver_ops": ops,
                      "thresholds": rng.choice([["0", "0.0", "1", "0.00", "-1"], ["1", "0", "1.0", "0.0"], ["30", "0", "0.0"]]),
                      "names": rng.choice([["full"], ["hash"], ["full", "hash", "full"], ["full", "none", "full"], ["hash", "hash"]])})
    obs, rc, err = R.drv(drv, "output", cases)
    if len(obs) != len(cases):
        chk.inconc("output driver returned %d of %d: %r" % (len(obs), len(cases), err[-200:]))
    nren = 0
    for o in obs:
        cse = cases[o["id"]]
        if "panic" in o:
            chk.violation("C19/re-rendering/panic", {"panic": o["panic"]})
            continue
        # every JSON document of every rendering is kept until the whole case is done (a caller that collects several reports
        # before printing them): each must still be the document it was
        docs = {}
        for ri, rdx in enumerate(o["renders"]):
            for kind in ("json1", "json2"):
                if kind not in rdx:
                    continue
                raw = base64.b64decode(rdx[kind])
                chk.count()
                js_, probs_ = P.parse_json(raw + b"\n")
                probs_ = [p_ for p_ in (probs_ or []) if not p_.startswith("duplicate key")]
                if js_ is None or probs_:
                    chk.violation("C19/re-rendering/%s-invalid-after-a-later-rendering" % kind,
                                  {"rendering_number": ri + 1, "of": cse["names"], "problems": probs_[:2], "head": raw[:120].decode("utf-8", "replace")})
                docs.setdefault((rdx["names"], kind), []).append(raw)
        for (st_, kind), lst in docs.items():
            if any(x != lst[0] for x in lst[1:]):
                chk.violation("C19/re-rendering/%s-differs-between-renderings-with-equal-parameters" % kind, {"names": st_, "of": cse["names"]})
        rd = o["renders"][0]
        tabs = {}
        for ts in cse["thresholds"]:
            if "panic:" + ts in rd:
                chk.violation("C19/re-rendering/panic", {"panic": rd["panic:" + ts], "threshold": ts})
                continue
            if "table:" + ts not in rd:
                continue
            tb = base64.b64decode(rd["table:" + ts])
            tabs[ts] = tb
            nren += 1
            chk.count()
            tab = P.parse_table(tb, lenient=True)
            probs = P.footnote_discipline(tab)
            if probs:
                chk.violation("C19/re-rendering/table-footnote-discipline", {"threshold": ts, "rendering_number": cse["thresholds"].index(ts) + 1,
                                                                            "of": cse["thresholds"], "problems": probs[:3],
                                                                            "table_tail": tb[-300:].decode("utf-8", "replace")})
            if any(r.citation is not None for r in tab.rows):
                chk.nontrivial(("rerender", o["id"], ts))
        for a_, b_ in (("0", "0.0"), ("0", "0.00"), ("1", "1.0")):
            if a_ in tabs and b_ in tabs and tabs[a_] != tabs[b_]:
                chk.violation("C19/re-rendering/equal-parameters-different-table", {"thresholds": [a_, b_], "order": cse["thresholds"]})
    chk.cov["re_renderings_judged"] = nren


def run(chk, b, tier):
    n = 120 if tier == "quick" else 10000
    sz = b.sizer()
    scratch = b.scratchdir()
    shimdir = b.shimdir()
    res = R.pmap(one_case, [(R.SEED, i, sz, scratch, shimdir) for i in range(n)], chunksize=2, chk=chk)
    profs = {}
    for i, r in enumerate(res):
        chk.count(r["evals"])
        for sig, det in r["viol"]:
            chk.violation(sig, det)
        for m in r["inconc"]:
            chk.bump("generator_discards")
        if r["hostile"] and r["cites"] >= 2:
            chk.nontrivial(("case", i))
        if r["cites"] >= 10:
            chk.bump("tables_with_10_or_more_citations")
        chk.bump("limited_stdout_runs", r.get("limited_stdout_runs", 0))
        chk.bump("runs_with_an_injected_git_fault", r.get("fault_runs", 0))
        if r["sample"]:
            profs[r["sample"]["profile"]] = profs.get(r["sample"]["profile"], 0) + 1
            chk.sample(r["sample"], limit=5)
    chk.cov["cases_per_name_profile"] = profs
    rerender_stage(chk, b, tier)
    if chk.cov.get("generator_discards", 0) > n // 3:
        chk.inconc("too many generator discards")
    from ._camp import generic_fault_sweep
    generic_fault_sweep(chk, b, "C19", [['-v', '--no-progress'], ['--json', '--json-version=2', '--no-progress']])
    chk.cov["rule"] = ("repositories with hostile file names (spaces, quotes/backslashes, control characters incl. LF, non-UTF-8, "
                       "rev-parse syntax, very long), reference names with every byte class git accepts (incl. non-UTF-8), "
                       "refgroup symbols and display names of arbitrary bytes, ROOT arguments spelled with such names; several "
                       "metrics share a witness. --json v1/v2: strictly valid UTF-8 JSON, key set as derived from the model "
                       "(witness keys present iff cited; v2: the 22 metric symbols with fixed member keys; per-refgroup entries "
                       "exempt); -v table: parsed on bytes: every citation has exactly one footnote, every footnote is cited, "
                       "numbered 1..k in order of first citation, identical texts share a number. Under injected git faults and with "
                       "stdout limited (sealed memfd) to each line boundary of the report: exit 0 only with the complete well-formed "
                       "report, nothing half-written passes as success. Non-trivial: >=2 citations.")
    chk.assumptions += ["display names ending in a citation-shaped token are indistinguishable from a citation by construction and "
                        "are not generated at the end of a name"]
