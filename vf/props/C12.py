"""C12 Human-readable numbers are correctly rounded and order-preserving."""
import json
import random
import subprocess
from fractions import Fraction

from .. import run as R

LEVEL = "exploration"

METRIC = [("", 1), ("k", 10 ** 3), ("M", 10 ** 6), ("G", 10 ** 9), ("T", 10 ** 12), ("P", 10 ** 15)]
BINARY = [("", 1), ("Ki", 2 ** 10), ("Mi", 2 ** 20), ("Gi", 2 ** 30), ("Ti", 2 ** 40), ("Pi", 2 ** 50)]


def judge_py(n, binary, numeral, unitstr, unit="B"):
    """Independent (python, exact rationals) judgement of one rendering. Returns (list of clauses violated, magnitude)."""
    table = BINARY if binary else METRIC
    bad = []
    if not unitstr.endswith(unit):
        return ["unit-suffix"], None
    pname = unitstr[:len(unitstr) - len(unit)] if unit else unitstr
    mult = dict(table).get(pname)
    if mult is None:
        return ["unknown-prefix"], None
    want = max(m for _, m in table if m <= max(n, 1))
    if mult != want:
        bad.append("prefix-not-largest")
    if not (1 <= len(numeral) <= 5):
        bad.append("numeral-length")
    try:
        val = Fraction(numeral)
    except (ValueError, ZeroDivisionError):
        return bad + ["numeral-syntax"], None
    if mult == 1:
        if numeral != str(n):
            bad.append("not-exact-below-first-prefix")
        return bad, val
    digits = numeral.replace(".", "")
    if len(digits) < 3:
        bad.append("fewer-than-3-significant-digits")
    q = len(numeral.split(".")[1]) if "." in numeral else 0
    err = abs(val * mult - n)
    half = Fraction(mult, 2 * 10 ** q)
    if err > half:
        excess = err - half
        if excess * 2 ** 51 <= n:
            bad.append("rounding-error-exceeds-half-unit(float-noise)")
        else:
            bad.append("rounding-error-exceeds-half-unit")
    return bad, val * mult


def bulk(arg):
    binary, seed, n = arg
    p = subprocess.run([binary, "human-bulk", str(seed), str(n)], stdout=subprocess.PIPE, stderr=subprocess.PIPE)
    if p.returncode != 0:
        return {"error": p.stderr.decode(errors="replace")[-500:]}
    return json.loads(p.stdout)


def run(chk, b, tier):
    drv = b.apidrv()
    total = 2 * 10 ** 6 if tier == "quick" else 5 * 10 ** 8
    nchunks = 16 if tier == "quick" else 256
    per = total // nchunks
    res = R.pmap(bulk, [(drv, R.SEED * 1000 + i, per) for i in range(nchunks)], chk=chk)
    per_prefix = {}
    for r in res:
        if "error" in r:
            chk.inconc("human-bulk failed: " + r["error"])
            continue
        chk.count(r["evaluations"])
        chk.bump("distinct_values", r["distinct"])
        chk.bump("rounding_ties_probed", r["ties"])
        chk.bump("monotone_adjacent_pairs", r["monotone_pairs"])
        chk.cov["goroutines_formatting_concurrently_per_driver"] = r.get("concurrent_judges", 1)
        for k, v in r["per_prefix"].items():
            per_prefix[k] = per_prefix.get(k, 0) + v
        for v in r["violations"] or []:
            report(chk, v["n"], v["h"] == "binary", v["numeral"], v["unit"], v["clause"], v.get("float_noise"), "go-reference")
        for s in (r["samples"] or [])[:2]:
            chk.sample(s, limit=10)
    chk.cov["renderings_per_prefix"] = per_prefix
    chk.cov["distinct_nontrivial"] = sum(v for k, v in per_prefix.items() if not k.endswith(":B"))
    # python re-judgement of the boundary set and a seeded sample (so that a bug in the Go reference cannot hide a defect)
    rng = random.Random("C12|%d" % R.SEED)
    vals = set()
    for table in (METRIC, BINARY):
        for _, m in table:
            for k in (1, 10, 100, 1000, 1024):
                for d in range(-8, 9):
                    vals.add(m * k + d)
            for _ in range(300):
                j = rng.randint(100, 999)
                for scale in (100, 10, 1):
                    t = (2 * j + 1) * m // (2 * scale)
                    vals.update([t - 1, t, t + 1])
    for k in range(64):
        vals.update([2 ** k - 1, 2 ** k, 2 ** k + 1])
    for _ in range(4000 if tier == "quick" else 40000):
        vals.add(rng.getrandbits(64) >> rng.randint(0, 63))
    vals = sorted(v for v in vals if 0 <= v < 2 ** 64)
    cases = []
    for i, v in enumerate(vals):
        cases.append({"id": 2 * i, "n": v, "h": "metric", "unit": "B"})
        cases.append({"id": 2 * i + 1, "n": v, "h": "binary", "unit": "B"})
    obs, rc, err = R.drv(drv, "human-eval", cases)
    if len(obs) != len(cases):
        chk.inconc("human-eval returned %d of %d" % (len(obs), len(cases)))
    prev = {False: None, True: None}
    for o in obs:
        c = cases[o["id"]]
        binary = c["h"] == "binary"
        chk.count()
        if "panic" in o:
            chk.violation("C12/panic", {"n": c["n"], "panic": o["panic"]})
            continue
        bad, mag = judge_py(c["n"], binary, o["numeral"], o["unit"])
        for clause in bad:
            report(chk, c["n"], binary, o["numeral"], o["unit"], clause.replace("(float-noise)", ""),
                   clause.endswith("(float-noise)"), "python-oracle")
        if mag is not None:
            if prev[binary] is not None and prev[binary][1] > mag:
                chk.violation("C12/not-monotone", {"n": c["n"], "prev": prev[binary][0], "h": c["h"]})
            prev[binary] = (c["n"], mag)
    chk.cov["python_rejudged"] = len(obs)
    # rendered numbers in situ: table cells (also in rows whose name is wider than the name column) must be correct
    # renderings of the JSON values of the same HistorySize
    import base64
    from .. import oracle as O
    from .. import parse_out as P
    from .C11 import check_formats
    cases = []
    def tie_adjacent():
        # 64-bit values next to a rounding boundary of the table numeral (above 2^53, where a detour through float64 moves them)
        r = rng.random()
        if r < 0.4:
            e = rng.choice([15, 16, 17, 18])
            u = 10 ** (e - 2)
            return rng.randrange(100, 1000) * u + u // 2 + rng.choice([-2, -1, 0, 1])
        if r < 0.8:
            sh = rng.choice([50, 53, 56, 60])
            return (((2 * rng.randrange(100, 1000) + 1) << sh) // 200) + rng.choice([-1, 0, 1, 2])
        return 2 ** 64 - rng.randint(1, 1100)
    for i in range(120 if tier == "quick" else 2000):
        fields = {k: min(O.CAPS[k], rng.choice([0, 7, 123, 999, 1000, 1023, 1024, 12500, 99999, 10 ** 6 + 1, rng.getrandbits(rng.randint(1, 63))]))
                  for k in O.CAPS}
        for k in O.CAPS:
            if O.CAPS[k] > 2 ** 32 and rng.random() < 0.7:
                fields[k] = min(O.CAPS[k], tie_adjacent())
        nm = lambda base: base + "-" + "w" * rng.choice([0, 10, 18, 20, 22, 24, 25, 28, 33, 50])
        groups = [{"symbol": "", "name": "Refs"}, {"symbol": "g1", "name": nm("One")}, {"symbol": "g1.sub", "name": nm("Sub")},
                  {"symbol": "g2", "name": nm("Two")}]
        gc = {"": 9, "g1": rng.choice([7, 123, 12500, 1234567]), "g1.sub": rng.choice([1, 100, 99999]), "g2": rng.choice([5, 4321, 10 ** 9])}
        cases.append({"id": i, "fields": fields, "groups": groups, "group_counts": gc, "thresholds": ["0", "-1"], "names": ["none"]})
    obs2, rc, err = R.drv(drv, "output", cases)
    if len(obs2) != len(cases):
        chk.inconc("output driver returned %d of %d" % (len(obs2), len(cases)))
    for o in obs2:
        chk.count()
        if "panic" in o:
            chk.violation("C12/in-table/panic", {"panic": o["panic"]})
            continue
        rd = o["renders"][0]
        j1, _ = P.parse_json(base64.b64decode(rd["json1"]) + b"\n")
        j2, _ = P.parse_json(base64.b64decode(rd["json2"]) + b"\n")
        tables = [(ts, base64.b64decode(rd["table:" + ts])) for ts in ("0", "-1") if ("table:" + ts) in rd]
        gn = {g["symbol"]: g["name"] for g in cases[o["id"]]["groups"]}
        for clause, det in check_formats(j1, j2, tables, "c12", group_names=gn):
            if "rendering" in clause or "unparsable" in clause:
                chk.violation("C12/in-table/" + clause, det)
    chk.cov["tables_rendered_for_in_situ_check"] = len(obs2)
    from ._camp import generic_fault_sweep
    generic_fault_sweep(chk, b, "C12", [['-v', '--no-progress', '--names=none']])
    # the table delivered through a one-page pipe that is switched to non-blocking mode under the running program: a write that
    # stops half-way (EAGAIN) must end the run, or be continued exactly where it stopped - never leave doubled or dropped digits
    import os
    import shutil
    from .. import gen as G
    d = os.path.join(b.scratchdir(), "nbtable")
    shutil.rmtree(d, ignore_errors=True)
    os.makedirs(d)
    m = G.random_model(rng, size="medium", hostile_names=False)
    m.config = "".join('[refgroup "g%d"]\n\tname = Group number %d with a long display name\n\tinclude = refs/%s\n' % (k, k, ["heads", "tags", "remotes", "notes"][k % 4])
                       for k in range(30))
    gitdir = G.write_model(m, os.path.join(d, "repo"))
    nb = 0
    for argv in (["-v", "--no-progress"], ["-v", "--no-progress", "--names=none"], ["--threshold=0", "--no-progress", "--names=hash"]):
        r0 = R.sizer(b.sizer(), gitdir, argv, tmpdir=d)
        for rep in range(2 if tier == "quick" else 8):
            r, got = R.nonblocking_stdout_run(b.sizer(), gitdir, argv, b.shimdir(), d)
            chk.count()
            nb += 1
            if r.timed_out:
                chk.inconc("watchdog in a non-blocking stdout run")
            elif r.rc == 0 and got != r0.out:
                tab = P.parse_table(got, lenient=True)
                chk.violation("C12/in-table/exit-0-with-a-table-that-differs-from-the-fault-free-one/stdout-switched-to-non-blocking",
                              {"argv": argv, "fault_free_bytes": len(r0.out), "received_bytes": len(got),
                               "first_difference": R._first_diff_lines(r0.out, got), "parser_errors": tab.errors[:2]})
        if len(r0.out) > 4096:
            chk.nontrivial(("nonblocking-table", tuple(argv)))
    chk.cov["tables_through_a_pipe_switched_to_non_blocking"] = nb
    shutil.rmtree(d, ignore_errors=True)
    chk.cov["rule"] = ("real counts.Metric/Binary.FormatNumber on exhaustive +-64 neighbourhoods of every prefix boundary and "
                       "precision switch, every band edge tie and 1000 seeded ties per band, 2^k+-2, 2^64-1, plus stratified "
                       "random values (log-uniform and mantissa-uniform); integer-only Go reference judges every clause; an "
                       "independent python oracle (exact Fractions) re-judges the boundary set and a seeded sample. "
                       "distinct_nontrivial = distinct values rendered with a prefix (the clauses beyond 'exact' apply).")
    chk.assumptions += ["two independent reference implementations (Go math/big, python Fraction) are trusted"]


def report(chk, n, binary, numeral, unit, clause, noise, who):
    det = {"n": n, "h": "binary" if binary else "metric", "numeral": numeral, "unit": unit, "judged_by": who}
    if clause.startswith("rounding-error-exceeds-half-unit"):
        if noise:
            sig = "C12/rounding-error-exceeds-half-unit/relative-excess<=2^-51(float64-conversion)"
        else:
            sig = "C12/rounding-error-exceeds-half-unit/large-excess"
    else:
        sig = "C12/" + clause.split(":")[0]
    chk.violation(sig, det)
