"""C02 Biggest single objects are the true maxima."""
from ._camp import run_campaign, api_delay_stage
from .. import oracle as _O

LEVEL = "exploration"


def run(chk, b, tier):
    n = 240 if tier == "quick" else 15000

    def nt(f):
        return ["objects>=3"] + (["merges"] if f["merge_commits"] else []) if f["objects"] >= 3 else []

    run_campaign(chk, b, ["general", "trees", "dag", "roots"], n, ["maxobj"], "C02", nt,
                 "same campaign as C01; max_commit_size, max_parent_count, max_tree_entries, max_blob_size are compared "
                 "with the model's maxima over the reachable set (0 when the kind is absent). A third of the runs sit "
                 "behind the shim's permute mode so that the maximal object is met at different positions of the listing. "
                 "Non-trivial: >=3 reachable objects.", permute=0.35)
    api_delay_stage(chk, b, _O.MAXOBJ_KEYS + (["reference_count"] if "C02" == "C01" else []), "C02", 6 if tier == "quick" else 150)
    chk.assumptions += ["reference model and generator trusted; generator self-checked against git"]
