// Command narrowdrv runs the width-narrowed copy of the counts package (see
// cmd/narrow) over every operand pair and compares with min(true, cap).
package main

import (
	"encoding/json"
	"fmt"
	"os"
	"sync"

	nc "verifh/ncounts"
)

type mism struct {
	Op   string `json:"op"`
	W    int    `json:"w"`
	A    uint64 `json:"a"`
	B    uint64 `json:"b"`
	Got  uint64 `json:"got"`
	Want uint64 `json:"want"`
}

func main() {
	full16 := len(os.Args) > 1 && os.Args[1] == "full"
	var mu sync.Mutex
	var mm []mism
	var evals uint64
	add := func(m mism) {
		mu.Lock()
		if len(mm) < 40 {
			mm = append(mm, m)
		}
		mu.Unlock()
	}
	// "32-bit" counter narrowed to 8 bits: all 2^16 pairs
	const c8 = 255
	for a := 0; a < 256; a++ {
		for b := 0; b < 256; b++ {
			want := a + b
			if want > c8 {
				want = c8
			}
			if g := nc.Count32(a).Plus(nc.Count32(b)); int(g) != want {
				add(mism{"plus", 8, uint64(a), uint64(b), uint64(g), uint64(want)})
			}
			x := nc.Count32(a)
			x.Increment(nc.Count32(b))
			if int(x) != want {
				add(mism{"inc", 8, uint64(a), uint64(b), uint64(x), uint64(want)})
			}
			mx := a
			if b > mx {
				mx = b
			}
			x = nc.Count32(a)
			r := x.AdjustMaxIfNecessary(nc.Count32(b))
			if int(x) != mx || (r && b < a) || (!r && b > a) {
				add(mism{"adjn", 8, uint64(a), uint64(b), uint64(x), uint64(mx)})
			}
			x = nc.Count32(a)
			r = x.AdjustMaxIfPossible(nc.Count32(b))
			if int(x) != mx || (r && b < a) || (!r && b > a) {
				add(mism{"adjp", 8, uint64(a), uint64(b), uint64(x), uint64(mx)})
			}
			evals += 4
		}
		v, o := nc.Count32(a).ToUint64()
		if int(v) != a || o != (a == c8) {
			add(mism{"tou64", 8, uint64(a), 0, uint64(v), uint64(a)})
		}
		evals++
	}
	// NewCount32 from the wide type: all 2^16 values
	for n := 0; n < 65536; n++ {
		want := n
		if want > c8 {
			want = c8
		}
		if g := nc.NewCount32(uint16(n)); int(g) != want {
			add(mism{"new32", 8, uint64(n), 0, uint64(g), uint64(want)})
		}
		v, o := nc.Count64(n).ToUint64()
		if int(v) != n || o != (n == 65535) {
			add(mism{"tou64", 16, uint64(n), 0, uint64(v), uint64(n)})
		}
		evals += 2
	}
	// "64-bit" counter narrowed to 16 bits: all 2^32 pairs (full) or a stride (quick)
	const c16 = 65535
	stride := 1
	if !full16 {
		stride = 17 // co-prime with 2^16: visits every residue across rows
	}
	var wg sync.WaitGroup
	var evalMu sync.Mutex
	for w := 0; w < 16; w++ {
		wg.Add(1)
		go func(w int) {
			defer wg.Done()
			var ev uint64
			for a := w; a < 65536; a += 16 {
				start := 0
				if stride > 1 {
					start = a % stride
				}
				for b := start; b < 65536; b += stride {
					want := a + b
					if want > c16 {
						want = c16
					}
					if g := nc.Count64(a).Plus(nc.Count64(b)); int(g) != want {
						add(mism{"plus", 16, uint64(a), uint64(b), uint64(g), uint64(want)})
					}
					x := nc.Count64(a)
					x.Increment(nc.Count64(b))
					if int(x) != want {
						add(mism{"inc", 16, uint64(a), uint64(b), uint64(x), uint64(want)})
					}
					mx := a
					if b > mx {
						mx = b
					}
					x = nc.Count64(a)
					r := x.AdjustMaxIfNecessary(nc.Count64(b))
					if int(x) != mx || (r && b < a) || (!r && b > a) {
						add(mism{"adjn", 16, uint64(a), uint64(b), uint64(x), uint64(mx)})
					}
					x = nc.Count64(a)
					r = x.AdjustMaxIfPossible(nc.Count64(b))
					if int(x) != mx || (r && b < a) || (!r && b > a) {
						add(mism{"adjp", 16, uint64(a), uint64(b), uint64(x), uint64(mx)})
					}
					ev += 4
				}
				// always include the edges of every row
				for _, b := range []int{0, 1, c16 - a - 1, c16 - a, c16 - a + 1, c16 - 1, c16} {
					if b < 0 || b > c16 {
						continue
					}
					want := a + b
					if want > c16 {
						want = c16
					}
					if g := nc.Count64(a).Plus(nc.Count64(b)); int(g) != want {
						add(mism{"plus", 16, uint64(a), uint64(b), uint64(g), uint64(want)})
					}
					ev++
				}
			}
			evalMu.Lock()
			evals += ev
			evalMu.Unlock()
		}(w)
	}
	wg.Wait()
	b, _ := json.Marshal(map[string]interface{}{"evaluations": evals, "mismatches": mm, "exhaustive_8bit": true, "exhaustive_16bit": full16})
	fmt.Println(string(b))
}
