import argparse
import importlib
import os
import sys

from . import core


def main():
    ap = argparse.ArgumentParser()
    ap.add_argument("prop")
    ap.add_argument("--tier", default=os.environ.get("VERIF_TIER", "quick"), choices=["quick", "thorough"])
    ap.add_argument("--replay", default=None)
    a = ap.parse_args()
    pid = a.prop.upper()
    try:
        mod = importlib.import_module("vf.props." + pid)
    except ImportError as e:
        print("no check for %s: %s" % (pid, e))
        return 3
    if a.replay:
        return mod.replay(a.replay)
    level = getattr(mod, "LEVEL", "exploration")
    return core.main_wrapper(pid, lambda chk, b: mod.run(chk, b, a.tier), a.tier, level)


sys.exit(main())
