"""Reference model: computes, from the in-memory graph only, every number that
git-sizer reports (unbounded Python integers; no recursion)."""
from .gen import children, GITLINK, TREE, LINK

U32 = 2 ** 32 - 1
U64 = 2 ** 64 - 1

# JSON v1 key -> (cap)
CAPS = {
    "unique_commit_count": U32, "unique_commit_size": U64, "max_commit_size": U32,
    "max_history_depth": U32, "max_parent_count": U32,
    "unique_tree_count": U32, "unique_tree_size": U64, "unique_tree_entries": U64,
    "max_tree_entries": U32,
    "unique_blob_count": U32, "unique_blob_size": U64, "max_blob_size": U32,
    "unique_tag_count": U32, "max_tag_depth": U32,
    "reference_count": U32,
    "max_path_depth": U32, "max_path_length": U32,
    "max_expanded_tree_count": U32, "max_expanded_blob_count": U32,
    "max_expanded_blob_size": U64, "max_expanded_link_count": U32,
    "max_expanded_submodule_count": U32,
}

CENSUS_KEYS = ["unique_commit_count", "unique_commit_size", "unique_tree_count", "unique_tree_size",
               "unique_tree_entries", "unique_blob_count", "unique_blob_size", "unique_tag_count"]
MAXOBJ_KEYS = ["max_commit_size", "max_parent_count", "max_tree_entries", "max_blob_size"]
DEPTH_KEYS = ["max_history_depth", "max_tag_depth"]
CHECKOUT_KEYS = ["max_path_depth", "max_path_length", "max_expanded_tree_count", "max_expanded_blob_count",
                 "max_expanded_blob_size", "max_expanded_link_count", "max_expanded_submodule_count"]

# JSON v1 witness key -> (value key, kind)
WITNESS = {
    "max_commit": ("max_commit_size", "commit"),
    "max_parent_count_commit": ("max_parent_count", "commit"),
    "max_tree_entries_tree": ("max_tree_entries", "tree"),
    "max_blob_size_blob": ("max_blob_size", "blob"),
    "max_tag_depth_tag": ("max_tag_depth", "tag"),
    "max_path_depth_tree": ("max_path_depth", "tree"),
    "max_path_length_tree": ("max_path_length", "tree"),
    "max_expanded_tree_count_tree": ("max_expanded_tree_count", "tree"),
    "max_expanded_blob_count_tree": ("max_expanded_blob_count", "tree"),
    "max_expanded_blob_size_tree": ("max_expanded_blob_size", "tree"),
    "max_expanded_link_count_tree": ("max_expanded_link_count", "tree"),
    "max_expanded_submodule_count_tree": ("max_expanded_submodule_count", "tree"),
}


def reachable(roots):
    seen = {}
    stack = list(roots)
    while stack:
        o = stack.pop()
        if o.oid in seen:
            continue
        seen[o.oid] = o
        stack.extend(children(o))
    return seen


def topo_children_first(objs, childfn):
    """Iterative post-order over the DAG restricted to `objs` (dict oid->obj)."""
    order = []
    state = {}
    for start in objs.values():
        if start.oid in state:
            continue
        stack = [(start, iter(childfn(start)))]
        state[start.oid] = 1
        while stack:
            o, it = stack[-1]
            adv = False
            for c in it:
                if c.oid not in state:
                    state[c.oid] = 1
                    stack.append((c, iter(childfn(c))))
                    adv = True
                    break
            if not adv:
                order.append(o)
                stack.pop()
    return order


def tree_expansion(trees):
    """trees: dict oid->Tree (closed under subtrees). Returns oid -> dict of 7 quantities."""
    exp = {}
    order = topo_children_first(trees, lambda t: [e.child for e in t.entries if e.kind == TREE])
    for t in order:
        d = dict(dirs=1, files=0, bytes=0, links=0, subs=0, depth=0, plen=0)
        for e in t.entries:
            ln = len(e.name)
            if e.kind == TREE:
                s = exp[e.child.oid]
                d["dirs"] += s["dirs"]
                d["files"] += s["files"]
                d["bytes"] += s["bytes"]
                d["links"] += s["links"]
                d["subs"] += s["subs"]
                d["depth"] = max(d["depth"], 1 + s["depth"])
                d["plen"] = max(d["plen"], ln + 1 + s["plen"] if s["plen"] > 0 else ln)
            else:
                d["depth"] = max(d["depth"], 1)
                d["plen"] = max(d["plen"], ln)
                if e.kind == GITLINK:
                    d["subs"] += 1
                elif e.kind == LINK:
                    d["links"] += 1
                else:
                    d["files"] += 1
                    d["bytes"] += e.child.size
        exp[t.oid] = d
    return exp


EXP_MAP = {"max_path_depth": "depth", "max_path_length": "plen", "max_expanded_tree_count": "dirs",
           "max_expanded_blob_count": "files", "max_expanded_blob_size": "bytes",
           "max_expanded_link_count": "links", "max_expanded_submodule_count": "subs"}


class Expected:
    """true (unsaturated) values + witness sets"""

    def __init__(self):
        self.true = {}
        self.wit = {}      # value key -> set of oids attaining the max
        self.reach = {}

    def sat(self, key):
        return min(self.true[key], CAPS[key])


def compute(roots, sizefn=None):
    """roots: iterable of Obj. Returns Expected."""
    ex = Expected()
    R = reachable(roots)
    ex.reach = R
    size = sizefn or (lambda o: o.size)
    commits = {k: o for k, o in R.items() if o.kind == "commit"}
    trees = {k: o for k, o in R.items() if o.kind == "tree"}
    blobs = {k: o for k, o in R.items() if o.kind == "blob"}
    tags = {k: o for k, o in R.items() if o.kind == "tag"}
    T = ex.true
    T["unique_commit_count"] = len(commits)
    T["unique_commit_size"] = sum(size(o) for o in commits.values())
    T["unique_tree_count"] = len(trees)
    T["unique_tree_size"] = sum(size(o) for o in trees.values())
    T["unique_tree_entries"] = sum(len(o.entries) for o in trees.values())
    T["unique_blob_count"] = len(blobs)
    T["unique_blob_size"] = sum(size(o) for o in blobs.values())
    T["unique_tag_count"] = len(tags)

    def maxw(key, objs, fn):
        # witness set: every object that attains the REPORTED (saturated) value of the metric
        vals = {oid: fn(o) for oid, o in objs.items()}
        best = max(vals.values(), default=0)
        cap = CAPS[key]
        T[key] = best
        ex.wit[key] = {oid for oid, v in vals.items() if min(v, cap) == min(best, cap)}

    maxw("max_commit_size", commits, size)
    maxw("max_parent_count", commits, lambda o: len(o.parents))
    maxw("max_tree_entries", trees, lambda o: len(o.entries))
    maxw("max_blob_size", blobs, size)

    # history depth
    depth = {}
    for c in topo_children_first(commits, lambda c: c.parents):
        depth[c.oid] = 1 + max([depth[p.oid] for p in c.parents], default=0)
    T["max_history_depth"] = max(depth.values(), default=0)
    ex.depth = depth
    # tag depth
    tdepth = {}
    for t in topo_children_first(tags, lambda t: [t.target] if t.target.kind == "tag" else []):
        tdepth[t.oid] = 1 + (tdepth[t.target.oid] if t.target.kind == "tag" else 0)
    maxw("max_tag_depth", tags, lambda o: tdepth[o.oid])
    # checkouts
    exp = tree_expansion(trees)
    ex.exp = exp
    for key, f in EXP_MAP.items():
        maxw(key, trees, lambda o, f=f: exp[o.oid][f])
    return ex


def compare_numeric(ex, js, keys):
    """Return list of (key, expected_saturated, got) mismatches."""
    bad = []
    for k in keys:
        want = ex.sat(k)
        got = js.get(k)
        if got != want:
            bad.append((k, want, got))
    return bad
