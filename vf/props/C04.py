"""C04 Checkout metrics equal the recursive expansion of the worst tree."""
from ._camp import run_campaign, api_delay_stage
from .. import oracle as _O

LEVEL = "exploration"


def run(chk, b, tier):
    n = 200 if tier == "quick" else 15000

    def nt(f):
        return ["objects>=4"] if f["objects"] >= 4 else []

    run_campaign(chk, b, ["trees", "trees", "general", "hostile-names"], n, ["checkout"], "C04", nt,
                 "tree-DAG generator (deep chains, wide trees, symlink / gitlink heavy subtrees, shared subtrees under "
                 "several names, empty subtrees, trees reachable only through a tag / ref / ROOT); the 7 checkout numbers "
                 "vs a memoised big-integer DP, each dimension maximised independently. Non-trivial: >=4 reachable objects.",
                 permute=0.3)
    api_delay_stage(chk, b, _O.CHECKOUT_KEYS + (["reference_count"] if "C04" == "C01" else []), "C04", 6 if tier == "quick" else 150)
    wide_directory_stage(chk, b, tier)
    chk.assumptions += ["reference model and generator trusted; generator self-checked against git"]


def _wide_case(arg):
    """One directory with K subdirectory entries (a few distinct subtrees behind them), itself a subdirectory of the root
    tree and - in the second variant - the root tree: K sits on the widths a pending-children counter could have."""
    import os, shutil
    from .. import gen as G, run as R, parse_out as P
    K, variant, sz, scratch = arg
    d = os.path.join(scratch, "wide-%d-%s" % (K, variant))
    os.makedirs(d)
    out = {"viol": [], "evals": 0, "K": K}
    try:
        b1, b2 = G.Blob(b"leaf-1\n"), G.Blob(b"other leaf\n")
        leaves = [G.Tree([G.Entry(G.FILE, b"f", b1)]), G.Tree([G.Entry(G.FILE, b"g", b2), G.Entry(G.LINK, b"l", b1)]),
                  G.Tree([G.Entry(G.TREE, b"in", G.Tree([G.Entry(G.FILE, b"deepest-file", b2)]))])]
        wide = G.Tree([G.Entry(G.TREE, b"d%06d" % j, leaves[0] if variant == "same" else leaves[j % 3]) for j in range(K)])
        top = wide if variant == "root" else G.Tree([G.Entry(G.FILE, b"README", b1), G.Entry(G.TREE, b"w", wide)])
        c = G.Commit(top, [], cts=1500000000, msg=b"wide\n")
        m = G.Model()
        m.refs["refs/heads/main"] = c
        m.commits = [c]
        gitdir = G.write_model(m, os.path.join(d, "repo"))
        r = R.sizer(sz, gitdir, ["--json", "--no-progress"], tmpdir=d, timeout=300)
        out["evals"] += 1
        if r.timed_out:
            out["inconc"] = "watchdog fired on the wide-directory case K=%d" % K
            return out
        if r.rc != 0:
            out["viol"].append(("run-failed", {"K": K, "variant": variant, "stderr": r.err[-300:]}))
            return out
        js, probs = P.parse_json(r.out)
        ex = _O.compute([c])
        bad = _O.compare_numeric(ex, js or {}, _O.CHECKOUT_KEYS)
        if bad:
            out["viol"].append(("values-differ-from-recursive-expansion", {"K": K, "variant": variant, "diffs": bad[:7]}))
    finally:
        shutil.rmtree(d, ignore_errors=True)
    return out


def wide_directory_stage(chk, b, tier):
    from .. import run as R
    ks = [127, 128, 129, 255, 256, 257, 32767, 32768, 65535, 65536, 65537]
    if tier != "quick":
        ks += [1000, 4095, 4096, 4097, 16384, 65534, 70001, 131071, 131072, 131073, 200003]
    jobs = [(K, v, b.sizer(), b.scratchdir()) for K in ks for v in ("mixed", "same", "root")]
    res = R.pmap(_wide_case, jobs, chk=chk)
    for r in res:
        chk.count(r["evals"])
        if r.get("inconc"):
            chk.inconc(r["inconc"])
        for clause, det in r["viol"]:
            chk.violation("C04/wide-directory-of-subdirectories/" + clause, det)
        if r["evals"]:
            chk.nontrivial(("wide", r["K"]))
    chk.cov["wide_directory_cases"] = len(jobs)
    chk.cov["wide_directory_entry_counts"] = ks
