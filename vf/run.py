"""Build step, sandbox, process runner, worker pool."""
import json
import random
import os
import shutil
import signal
import subprocess
import sys
import tempfile
import time

VERIF = os.path.dirname(os.path.dirname(os.path.abspath(__file__)))
REPO = os.environ.get("VERIF_REPO", "/repo")
SEED = int(os.environ.get("VERIF_SEED", "1"))
NPROC = int(os.environ.get("VERIF_NPROC", str(min(16, os.cpu_count() or 4))))
REAL_GIT = os.environ.get("VERIF_REAL_GIT", "/usr/bin/git")

GOENV = {
    "GOFLAGS": "-mod=mod", "GOPROXY": "off", "GOSUMDB": "off", "GOTOOLCHAIN": "local",
    "CGO_ENABLED": "0",
}


class Inconclusive(Exception):
    pass


def goenv(extra=None):
    env = dict(os.environ)
    env.update(GOENV)
    if extra:
        env.update(extra)
    return env


class Build:
    """Per-process build directory /verif/build/<pid>/ with the binaries a check needs."""

    def __init__(self, tag="verif"):
        self.dir = os.path.join(VERIF, "build", "%d" % os.getpid())
        self.tag = tag
        shutil.rmtree(self.dir, ignore_errors=True)
        os.makedirs(self.dir)
        self.scratch = None
        self._sizer = {}
        self._shimdir = None
        self._apidrv = {}
        self._hdir = None

    def cleanup(self):
        shutil.rmtree(self.dir, ignore_errors=True)
        if self.scratch:
            shutil.rmtree(self.scratch, ignore_errors=True)

    def _go(self, args, cwd, env=None, what="build"):
        e = goenv(env)
        p = subprocess.run(["go"] + args, cwd=cwd, env=e, stdout=subprocess.PIPE, stderr=subprocess.STDOUT)
        if p.returncode != 0:
            raise Inconclusive("go %s failed (%s):\n%s" % (what, " ".join(args), p.stdout.decode(errors="replace")[-4000:]))
        return p

    def sizer(self, race=False):
        """git-sizer built from the current working tree of REPO."""
        key = "race" if race else "plain"
        if key not in self._sizer:
            outdir = os.path.join(self.dir, "sizer-" + key)
            os.makedirs(outdir, exist_ok=True)
            out = os.path.join(outdir, "git-sizer")
            args = ["build", "-tags", self.tag, "-o", out]
            env = {}
            if race:
                args.insert(1, "-race")
                env["CGO_ENABLED"] = "1"
            args.append(".")
            self._go(args, REPO, env, "build of git-sizer")
            self._sizer[key] = out
        return self._sizer[key]

    def shimdir(self):
        if self._shimdir is None:
            d = os.path.join(self.dir, "shim")
            os.makedirs(d, exist_ok=True)
            self._go(["build", "-o", os.path.join(d, "git"), "."], os.path.join(VERIF, "shim"), what="build of shim")
            self._shimdir = d
        return self._shimdir

    def harness_dir(self):
        if self._hdir is None:
            d = os.path.join(self.dir, "harness")
            shutil.copytree(os.path.join(VERIF, "harness"), d)
            with open(os.path.join(d, "go.mod.tmpl")) as f:
                t = f.read()
            with open(os.path.join(d, "go.mod"), "w") as f:
                f.write(t.replace("@REPO@", REPO))
            shutil.copy(os.path.join(REPO, "go.sum"), os.path.join(d, "go.sum"))
            self._hdir = d
        return self._hdir

    def apidrv(self, race=False):
        key = "race" if race else "plain"
        if key not in self._apidrv:
            d = self.harness_dir()
            out = os.path.join(self.dir, "apidrv-" + key)
            args = ["build", "-tags", self.tag, "-o", out]
            env = {}
            if race:
                args.insert(1, "-race")
                env["CGO_ENABLED"] = "1"
            args.append("./cmd/apidrv")
            self._go(args, d, env, "build of apidrv")
            self._apidrv[key] = out
        return self._apidrv[key]

    def narrowdrv(self):
        """Width-narrowed copy of counts/counts.go + exhaustive driver; returns (path or None, note)."""
        d = self.harness_dir()
        nd = os.path.join(d, "ncounts")
        os.makedirs(nd, exist_ok=True)
        src = os.path.join(REPO, "counts", "counts.go")
        p = subprocess.run(["go", "run", "./cmd/narrow", src, os.path.join(nd, "counts.go")], cwd=d, env=goenv(),
                           stdout=subprocess.PIPE, stderr=subprocess.STDOUT)
        if p.returncode != 0:
            return None, "narrowing rewrite failed: " + p.stdout.decode(errors="replace")[-300:]
        nrew = p.stdout.decode().strip().splitlines()[-1]
        out = os.path.join(self.dir, "narrowdrv")
        p = subprocess.run(["go", "build", "-o", out, "./cmd/narrowdrv"], cwd=d, env=goenv(),
                           stdout=subprocess.PIPE, stderr=subprocess.STDOUT)
        if p.returncode != 0:
            return None, "narrowed copy does not compile: " + p.stdout.decode(errors="replace")[-300:]
        return out, "%s identifiers rewritten" % nrew

    def scratchdir(self):
        if self.scratch is None:
            base = "/dev/shm" if os.path.isdir("/dev/shm") and os.access("/dev/shm", os.W_OK) else tempfile.gettempdir()
            self.scratch = os.path.join(base, "verif-%d" % os.getpid())
            shutil.rmtree(self.scratch, ignore_errors=True)
            os.makedirs(self.scratch)
            # scratch of earlier runs that were killed before they could clean up (their process no longer exists)
            try:
                for n in os.listdir(base):
                    if n.startswith("verif-") and n[6:].isdigit() and not os.path.exists("/proc/" + n[6:]):
                        shutil.rmtree(os.path.join(base, n), ignore_errors=True)
            except OSError:
                pass
        return self.scratch


def base_env(extra=None, shimdir=None):
    env = {
        "PATH": (shimdir + ":" if shimdir else "") + "/usr/bin:/bin",
        "HOME": "/nonexistent",
        "GIT_CONFIG_GLOBAL": "/dev/null",
        "GIT_CONFIG_SYSTEM": "/dev/null",
        "GIT_CONFIG_NOSYSTEM": "1",
        "LC_ALL": "C",
        "TZ": "UTC",
    }
    if extra:
        env.update(extra)
    return env


class Result:
    __slots__ = ("rc", "out", "err", "timed_out", "wall", "rusage")

    def __init__(self, rc, out, err, timed_out=False, wall=0.0, rusage=None):
        self.rc, self.out, self.err, self.timed_out, self.wall, self.rusage = rc, out, err, timed_out, wall, rusage


SLOWCAT = ("import os,sys,time\nch,ms,ini=int(sys.argv[1]),float(sys.argv[2]),float(sys.argv[3])\ntime.sleep(ini/1000.0)\n"
           "while True:\n b=os.read(0,ch)\n if not b: break\n os.write(1,b)\n time.sleep(ms/1000.0)\n")


def run_proc(argv, cwd, env, timeout=60, stdin=None, stdout_path=None, tmpdir=None, stdout_fd=None, rlimit_cpu=None,
             slow_stderr=None):
    """Run a process in its own process group, stdout/stderr to files (not pipes).
    On watchdog expiry send SIGQUIT (Go dumps goroutines), then SIGKILL the group.
    slow_stderr=(chunk bytes, pause ms[, initial pause ms]): stderr goes through a pipe of minimal capacity (one page) whose
    reader waits `initial pause`, then takes `chunk` bytes at a time with pauses (a terminal that scrolls slowly, a remote
    shell, a pager that was not looked at yet): writers of stderr are throttled, nothing is lost."""
    tmpdir = tmpdir or tempfile.gettempdir()
    of = None
    if stdout_fd is None:
        of = open(stdout_path, "wb") if stdout_path else tempfile.TemporaryFile(dir=tmpdir)
    ef = tempfile.TemporaryFile(dir=tmpdir)
    t0 = time.time()

    def pre():
        os.setsid()
        if rlimit_cpu:
            import resource
            resource.setrlimit(resource.RLIMIT_CPU, (rlimit_cpu, rlimit_cpu + 5))

    cat = None
    if slow_stderr:
        import fcntl
        pr, pw = os.pipe()
        try:
            fcntl.fcntl(pw, fcntl.F_SETPIPE_SZ, 4096)
        except OSError:
            pass
        p = subprocess.Popen(argv, cwd=cwd, env=env, stdin=stdin if stdin is not None else subprocess.DEVNULL,
                             stdout=stdout_fd if stdout_fd is not None else of, stderr=pw, preexec_fn=pre)
        os.close(pw)
        cat = subprocess.Popen([sys.executable, "-c", SLOWCAT, str(slow_stderr[0]), str(slow_stderr[1]),
                                str(slow_stderr[2] if len(slow_stderr) > 2 else 0)], stdin=pr, stdout=ef, stderr=subprocess.DEVNULL)
        os.close(pr)
    else:
        p = subprocess.Popen(argv, cwd=cwd, env=env, stdin=stdin if stdin is not None else subprocess.DEVNULL,
                             stdout=stdout_fd if stdout_fd is not None else of, stderr=ef, preexec_fn=pre)
    timed_out = False
    try:
        p.wait(timeout=timeout)
    except subprocess.TimeoutExpired:
        timed_out = True
        live_children = _children_of(p.pid)
        # process-state evidence for a deadlock witness: nobody in the process tree is runnable or consumes CPU during
        # an observation window, and nothing is written to stdout/stderr meanwhile
        snap1 = _tree_state(p.pid)
        sz1 = (of.tell() if of is not None and not stdout_path else 0, os.fstat(ef.fileno()).st_size)
        time.sleep(1.5)
        snap2 = _tree_state(p.pid)
        sz2 = (of.tell() if of is not None and not stdout_path else 0, os.fstat(ef.fileno()).st_size)
        quiescent = bool(snap1) and snap1 == snap2 and sz1 == sz2 and all(st in ("S", "Z") for _, st, _ in snap2)
        try:
            os.kill(p.pid, signal.SIGQUIT)
        except ProcessLookupError:
            pass
        try:
            p.wait(timeout=5)
        except subprocess.TimeoutExpired:
            pass
    try:
        os.killpg(p.pid, signal.SIGKILL)
    except (ProcessLookupError, PermissionError):
        pass
    p.wait()
    if cat is not None:
        try:
            cat.wait(timeout=60)
        except subprocess.TimeoutExpired:
            cat.kill()
            cat.wait()
    wall = time.time() - t0
    out = b""
    if of is not None:
        if stdout_path:
            of.close()
            with open(stdout_path, "rb") as f:
                out = f.read()
        else:
            of.seek(0)
            out = of.read()
            of.close()
    ef.seek(0)
    err = ef.read()
    ef.close()
    res = Result(p.returncode, out, err, timed_out, wall)
    if timed_out:
        res.rusage = {"live_children": live_children, "quiescent": quiescent, "process_tree": snap2}
    return res


def deadlock_witness(r):
    """True iff a watchdog-terminated run left a deadlock witness: goroutine dump present and the process tree was
    quiescent (or had no live child). Anything else after a watchdog is inconclusive, never a violation."""
    if not r.timed_out:
        return False
    ru = r.rusage or {}
    return b"goroutine " in r.err and (not ru.get("live_children") or ru.get("quiescent", False))


def _tree_state(root):
    """[(comm, state, cpu ticks)] of root and all its live descendants."""
    procs = {}
    for d in os.listdir("/proc"):
        if not d.isdigit():
            continue
        try:
            with open("/proc/%s/stat" % d) as f:
                st = f.read()
            rp = st.rfind(")")
            fields = st[rp + 2:].split()
            procs[int(d)] = (st[st.find("(") + 1:rp], fields[0], int(fields[1]), int(fields[11]) + int(fields[12]))
        except (OSError, ValueError, IndexError):
            continue
    out = []
    todo = [root]
    seen = set()
    while todo:
        x = todo.pop()
        if x in seen or x not in procs:
            continue
        seen.add(x)
        comm, state, ppid, cpu = procs[x]
        out.append((comm, state, cpu))
        todo.extend(k for k, v in procs.items() if v[2] == x)
    return sorted(out)


def _children_of(pid):
    """Names of live (non-zombie) child processes of pid (for deadlock witnesses)."""
    out = []
    for d in os.listdir("/proc"):
        if not d.isdigit():
            continue
        try:
            with open("/proc/%s/stat" % d) as f:
                st = f.read()
            rp = st.rfind(")")
            fields = st[rp + 2:].split()
            if int(fields[1]) == pid and fields[0] != "Z":
                out.append(st[st.find("(") + 1:rp])
        except (OSError, ValueError, IndexError):
            continue
    return out


def sizer(binary, cwd, args, env=None, shimdir=None, plan=None, timeout=60, tmpdir=None, **kw):
    e = base_env(env, shimdir=shimdir if plan is not None else None)
    if plan is not None:
        e["VERIF_SHIM_PLAN"] = plan
    return run_proc([binary] + list(args), cwd, e, timeout=timeout, tmpdir=tmpdir, **kw)


FAULT_SIGS = ["for-each-ref", "rev-list", "cat-file --batch-check", "cat-file --batch", "rev-parse --verify", "config --list",
              "rev-parse --git-path", "rev-parse --git-dir", "config --get sizer.names", "config --get sizer.threshold",
              "config --get sizer.progress", "config --get sizer.jsonVersion"]


def fault_probe(chk, prefix, binary, cwd, argv, rng, shimdir, tmpdir, n=3, env=None, baseline=None):
    """Generic all-or-nothing probe used by checks whose subject is something else: run `argv` with one git child failing
    at a seeded point; a run that still exits 0 must print exactly what the fault-free run prints (a failing run is C10's
    business and is not judged here). Returns the number of probes that were delivered."""
    if baseline is None:
        r0 = sizer(binary, cwd, argv, env=env, tmpdir=tmpdir)
        if r0.rc != 0:
            return 0
        baseline = r0.out
    delivered = 0
    for k in range(n):
        pdir = os.path.join(tmpdir, "probe-%d-%d" % (os.getpid(), rng.getrandbits(30)))
        rule = {"sig": rng.choice(FAULT_SIGS), "ord": rng.choice([0, 0, 0, 1]), "mode": "fault",
                "term": rng.choice(["exit:128", "exit:2", "sig:KILL", "sig:TERM"]),
                "after_bytes": rng.choice([0, 0, 20, 41, 100, 300, 1 << 40]), "before_exec": rng.random() < 0.25}
        plan = make_plan(pdir, [rule])
        r = sizer(binary, cwd, argv, env=env, shimdir=shimdir, plan=plan, tmpdir=tmpdir, timeout=30)
        evs = read_events(pdir)
        shutil.rmtree(pdir, ignore_errors=True)
        if not any(e.get("delivered") for e in evs):
            continue
        delivered += 1
        chk.count()
        if r.timed_out:
            if deadlock_witness(r):
                chk.violation(prefix + "/fault-probe/hang(deadlock witness)", {"argv": argv, "rule": rule, "dump": r.err[-1500:]})
            continue
        if r.rc == 0 and r.out != baseline:
            chk.violation(prefix + "/fault-probe/exit-0-but-report-differs-from-fault-free-run/" + rule["sig"].split(" ")[0],
                          {"argv": argv, "rule": rule, "out": r.out[:200], "want": baseline[:200]})
        elif r.rc != 0 and r.out.strip():
            chk.violation(prefix + "/fault-probe/failure-with-output-on-stdout/" + rule["sig"].split(" ")[0],
                          {"argv": argv, "rule": rule, "out": r.out[:200]})
    chk.bump("fault_probes_delivered", delivered)
    return delivered


class Collector:
    """Stands in for a Check inside worker processes: counts and violations go into a plain dict."""

    def __init__(self, out, evals_key="evals", strip_prefix=None):
        self.out, self.k, self.strip = out, evals_key, strip_prefix

    def count(self, n=1):
        self.out[self.k] = self.out.get(self.k, 0) + n

    def bump(self, key, n=1):
        self.out[key] = self.out.get(key, 0) + n

    def violation(self, sig, det):
        if self.strip and sig.startswith(self.strip):
            sig = sig[len(self.strip):]
        self.out["viol"].append((sig, det))


def limited_stdout(argv, cwd, env, limit, timeout=60, tmpdir=None):
    """Run argv with stdout on a memory file that cannot grow beyond `limit` bytes (memfd sealed against growing): a write that
    would pass the limit fails with EPERM, without any signal - the behaviour of a full disk or an exhausted quota at that
    point of the output. Returns (Result with .out = the bytes that were accepted, bytes accepted)."""
    import fcntl
    fd = os.memfd_create("limited-stdout", os.MFD_ALLOW_SEALING)
    try:
        os.ftruncate(fd, limit)
        fcntl.fcntl(fd, fcntl.F_ADD_SEALS, fcntl.F_SEAL_GROW | fcntl.F_SEAL_SHRINK)
        r = run_proc(argv, cwd, env, timeout=timeout, tmpdir=tmpdir, stdout_fd=fd)
        written = os.lseek(fd, 0, os.SEEK_CUR)
        r.out = os.pread(fd, written, 0) if written else b""
        return r, written
    finally:
        os.close(fd)


def nonblocking_stdout_run(binary, cwd, argv, shimdir, tmpdir, env=None, timeout=60):
    """stdout is a one-page pipe that another holder of the same open file switches to non-blocking mode while the program is
    already running (a shell pipeline whose other end is a program that does that to its descriptors), read slowly by a
    reader that first waits: a write of more than a page then stops half-way with EAGAIN. Returns (Result, bytes the reader
    received). The first git child is held back 250 ms so that the mode is switched after start-up and before the report."""
    import fcntl
    pdir = os.path.join(tmpdir, "nbplan-%d-%d" % (os.getpid(), random.getrandbits(30)))
    plan = make_plan(pdir, [{"sig": "for-each-ref", "ord": -1, "mode": "delay", "pre_ms": 250, "max_ms": 300}])
    e = base_env(env, shimdir=shimdir)
    e["VERIF_SHIM_PLAN"] = plan
    pr, pw = os.pipe()
    try:
        fcntl.fcntl(pw, fcntl.F_SETPIPE_SZ, 4096)
    except OSError:
        pass
    got = tempfile.TemporaryFile(dir=tmpdir)
    ef = tempfile.TemporaryFile(dir=tmpdir)
    p = subprocess.Popen([binary] + list(argv), cwd=cwd, env=e, stdin=subprocess.DEVNULL, stdout=pw, stderr=ef, preexec_fn=os.setsid)
    cat = subprocess.Popen([sys.executable, "-c", SLOWCAT, "700", "4", "600"], stdin=pr, stdout=got, stderr=subprocess.DEVNULL)
    os.close(pr)
    time.sleep(0.1)
    fl = fcntl.fcntl(pw, fcntl.F_GETFL)
    fcntl.fcntl(pw, fcntl.F_SETFL, fl | os.O_NONBLOCK)
    os.close(pw)
    timed_out = False
    try:
        p.wait(timeout=timeout)
    except subprocess.TimeoutExpired:
        timed_out = True
        try:
            os.killpg(p.pid, signal.SIGKILL)
        except (ProcessLookupError, PermissionError):
            pass
        p.wait()
    try:
        cat.wait(timeout=30)
    except subprocess.TimeoutExpired:
        cat.kill()
        cat.wait()
    got.seek(0)
    out = got.read()
    got.close()
    ef.seek(0)
    err = ef.read()
    ef.close()
    shutil.rmtree(pdir, ignore_errors=True)
    return Result(p.returncode, out, err, timed_out), out


def output_limit_sweep(binary, cwd, argv, env=None, tmpdir=None, max_points=40, rng=None):
    """The fault-free report, then the same run with stdout limited to every line boundary (and a few other lengths) of that
    report. Returns (baseline bytes or None, [(limit, Result, accepted bytes)])."""
    e = base_env(env)
    r0 = run_proc([binary] + list(argv), cwd, e, tmpdir=tmpdir)
    if r0.rc != 0 or not r0.out:
        return None, []
    L = len(r0.out)
    pts = {0, 1, L - 1}
    acc = 0
    for line in r0.out.split(b"\n")[:-1]:
        acc += len(line) + 1
        pts.add(acc)
    pts.discard(L)
    pts = sorted(x for x in pts if 0 <= x < L)
    if len(pts) > max_points:
        rr = rng or random.Random(L)
        keep = set(pts[:4] + pts[-12:])
        keep |= set(rr.sample(pts, max_points - len(keep)))
        pts = sorted(keep)
    out = []
    for n in pts:
        r, w = limited_stdout([binary] + list(argv), cwd, e, n, tmpdir=tmpdir)
        out.append((n, r, w))
    return r0.out, out


def fault_sweep(chk, prefix, binary, cwd, argv, shimdir, tmpdir, env=None, only=None):
    """Deterministic companion of fault_probe: learns the git children of the fault-free run from the shim's record, then
    lets each of them fail before it starts, before its first byte, inside its first line, half-way, one byte short and after
    its whole output. A run that still exits 0 must print exactly the fault-free report (whether a failing run is handled
    well is C10's business). Returns the number of delivered faults."""
    pdir = os.path.join(tmpdir, "sweep-rec-%d-%d" % (os.getpid(), random.getrandbits(30)))
    plan = make_plan(pdir, [], record=True)
    r0 = sizer(binary, cwd, argv, env=env, shimdir=shimdir, plan=plan, tmpdir=tmpdir)
    evs = read_events(pdir)
    shutil.rmtree(pdir, ignore_errors=True)
    if r0.rc != 0 or r0.timed_out or not evs:
        return 0
    baseline = r0.out
    delivered = 0
    k = 0
    for e in evs:
        if only and not any(e["sig"].startswith(o) for o in only):
            continue
        L = e.get("real_bytes", 0)
        pts = [("before_exec", None)] + [("after", n) for n in sorted({0, min(L, 30), L // 2, max(0, L - 1), L})]
        for kind, n in pts:
            k += 1
            # (status 1 is the documented "not set" answer of `git config --get`; for every other child it is a failure)
            terms = ["exit:128", "sig:KILL", "exit:2"] + ([] if e["sig"].startswith("config --get") else ["exit:1"])
            rule = {"sig": e["sig"], "ord": e["ord"], "mode": "fault", "term": terms[k % len(terms)]}
            if kind == "before_exec":
                rule["before_exec"] = True
            else:
                rule["after_bytes"] = n
            pd = os.path.join(tmpdir, "sweep-%d-%d" % (os.getpid(), random.getrandbits(30)))
            r = sizer(binary, cwd, argv, env=env, shimdir=shimdir, plan=make_plan(pd, [rule]), tmpdir=tmpdir, timeout=30)
            fe = read_events(pd)
            shutil.rmtree(pd, ignore_errors=True)
            chk.count()
            if not any(x.get("delivered") and x.get("mode") == "fault" for x in fe):
                continue
            delivered += 1
            chk.bump("fault_sweep_faults_delivered")
            if r.rc == 0 and not r.timed_out and r.out != baseline:
                chk.violation("%s/fault-probe/exit-0-but-report-differs-from-fault-free-run/%s" % (prefix, e["sig"].split(" ")[0]),
                              {"argv": argv, "rule": rule, "stderr": r.err[-300:].decode("utf-8", "replace"),
                               "first_difference": _first_diff_lines(baseline, r.out)})
    return delivered


def _first_diff_lines(a, b):
    for x, y in zip(a.split(b"\n"), b.split(b"\n")):
        if x != y:
            return [x[:160].decode("utf-8", "replace"), y[:160].decode("utf-8", "replace")]
    return ["<length>", "%d vs %d bytes" % (len(a), len(b))]


def ambient(rng, p_trace=0.15):
    """Environment noise that must never matter (a chatty git)."""
    return {"GIT_TRACE": "1"} if rng.random() < p_trace else {}


def make_plan(dirpath, rules=(), record=False, record_stdin=False):
    """Write a shim plan into dirpath (which also receives counters + events.jsonl)."""
    os.makedirs(dirpath, exist_ok=True)
    plan = {"real": REAL_GIT, "dir": dirpath, "record": record, "rules": list(rules), "record_stdin": record_stdin}
    p = os.path.join(dirpath, "plan.json")
    with open(p, "w") as f:
        json.dump(plan, f)
    return p


def read_events(dirpath):
    p = os.path.join(dirpath, "events.jsonl")
    if not os.path.exists(p):
        return []
    out = []
    with open(p) as f:
        for line in f:
            line = line.strip()
            if line:
                try:
                    out.append(json.loads(line))
                except ValueError:
                    pass
    return out


def drv(binary, sub, cases, args=(), timeout=600, env=None):
    """Run apidrv sub-command over a list of case dicts; returns list of observation dicts."""
    inp = "".join(json.dumps(c) + "\n" for c in cases).encode()
    e = dict(os.environ)
    e.update(base_env())
    if env:
        e.update(env)
    p = subprocess.run([binary, sub] + list(args), input=inp, stdout=subprocess.PIPE, stderr=subprocess.PIPE,
                       timeout=timeout, env=e)
    obs = []
    for line in p.stdout.splitlines():
        if line.strip():
            obs.append(json.loads(line))
    return obs, p.returncode, p.stderr


class _Safe:
    """Picklable wrapper: a worker exception becomes a FailedCase instead of killing the whole campaign."""

    def __init__(self, fn):
        self.fn = fn

    def __call__(self, x):
        try:
            return self.fn(x)
        except Exception:
            import traceback
            return FailedCase(traceback.format_exc()[-1500:])


class FailedCase:
    def __init__(self, tb):
        self.tb = tb


def pmap(fn, items, nproc=None, chunksize=1, chk=None, with_items=False):
    """Parallel map with fork-based pool; results in order.  With chk: a harness exception in one case is recorded as
    inconclusive (exit 3 unless a violation is found elsewhere) and that case is dropped from the results."""
    import multiprocessing as mp
    nproc = nproc or NPROC
    f = _Safe(fn) if chk is not None else fn
    if nproc <= 1 or len(items) <= 1:
        res = [f(x) for x in items]
    else:
        ctx = mp.get_context("fork")
        with ctx.Pool(nproc) as pool:
            res = pool.map(f, items, chunksize=chunksize)
    if chk is not None:
        ok_items, ok_res = [], []
        for it, r in zip(items, res):
            if isinstance(r, FailedCase):
                chk.inconc("harness exception in one case: " + r.tb[-400:])
            else:
                ok_items.append(it)
                ok_res.append(r)
        return (ok_items, ok_res) if with_items else ok_res
    return res
