package main

import (
	"encoding/json"
	"math"
	"math/bits"
	"math/rand"
	"strconv"

	"github.com/github/git-sizer/counts"
)

type countStep struct {
	Op string `json:"op"`
	X  uint64 `json:"x"`
}

func getU64(c rawCase, k string) uint64 {
	var v uint64
	if r, ok := c[k]; ok {
		if err := json.Unmarshal(r, &v); err != nil {
			panic("bad uint64 field " + k)
		}
	}
	return v
}

func getStr(c rawCase, k string) string {
	var v string
	if r, ok := c[k]; ok {
		json.Unmarshal(r, &v)
	}
	return v
}

func getInt(c rawCase, k string) int {
	var v int
	if r, ok := c[k]; ok {
		json.Unmarshal(r, &v)
	}
	return v
}

// countsEval executes one operation of the real counts package.
func countsEval(id interface{}, c rawCase) map[string]interface{} {
	op := getStr(c, "op")
	w := getInt(c, "w")
	a, b := getU64(c, "a"), getU64(c, "b")
	res := map[string]interface{}{}
	switch op {
	case "new32":
		res["v"] = uint64(counts.NewCount32(a))
	case "plus":
		if w == 32 {
			res["v"] = uint64(counts.Count32(a).Plus(counts.Count32(b)))
		} else {
			res["v"] = uint64(counts.Count64(a).Plus(counts.Count64(b)))
		}
	case "inc":
		if w == 32 {
			n := counts.Count32(a)
			n.Increment(counts.Count32(b))
			res["v"] = uint64(n)
		} else {
			n := counts.Count64(a)
			n.Increment(counts.Count64(b))
			res["v"] = uint64(n)
		}
	case "adjn":
		if w == 32 {
			n := counts.Count32(a)
			res["ret"] = n.AdjustMaxIfNecessary(counts.Count32(b))
			res["v"] = uint64(n)
		} else {
			n := counts.Count64(a)
			res["ret"] = n.AdjustMaxIfNecessary(counts.Count64(b))
			res["v"] = uint64(n)
		}
	case "adjp":
		if w == 32 {
			n := counts.Count32(a)
			res["ret"] = n.AdjustMaxIfPossible(counts.Count32(b))
			res["v"] = uint64(n)
		} else {
			n := counts.Count64(a)
			res["ret"] = n.AdjustMaxIfPossible(counts.Count64(b))
			res["v"] = uint64(n)
		}
	case "tou64":
		if w == 32 {
			v, o := counts.Count32(a).ToUint64()
			res["v"], res["over"] = v, o
		} else {
			v, o := counts.Count64(a).ToUint64()
			res["v"], res["over"] = v, o
		}
	case "compose":
		var steps []countStep
		json.Unmarshal(c["steps"], &steps)
		c32, c64 := runCompose(steps)
		res["c32"], res["c64"] = uint64(c32), uint64(c64)
	default:
		panic("unknown op")
	}
	// uint64 values above 2^53 survive: encoding/json prints integers exactly.
	return res
}

func runCompose(steps []countStep) (counts.Count32, counts.Count64) {
	var c32 counts.Count32
	var c64 counts.Count64
	for _, s := range steps {
		switch s.Op {
		case "inc32":
			c32.Increment(counts.NewCount32(s.X))
		case "inc64":
			c64.Increment(counts.NewCount64(s.X))
		case "inc64from32":
			c64.Increment(counts.Count64(c32))
		case "max32":
			c32.AdjustMaxIfNecessary(counts.NewCount32(s.X))
		case "max64":
			c64.AdjustMaxIfNecessary(counts.NewCount64(s.X))
		case "maxp32":
			c32.AdjustMaxIfPossible(counts.NewCount32(s.X))
		case "plus32":
			c32 = c32.Plus(counts.NewCount32(s.X))
		case "plus64":
			c64 = c64.Plus(counts.NewCount64(s.X))
		}
	}
	return c32, c64
}

// reference (integer-only; carry detection via math/bits, no shared code)
func refPlus32(a, b uint64) uint64 {
	s := a + b // both < 2^32
	if s > math.MaxUint32 {
		return math.MaxUint32
	}
	return s
}

func refPlus64(a, b uint64) uint64 {
	s, carry := bits.Add64(a, b, 0)
	if carry != 0 {
		return math.MaxUint64
	}
	return s
}

func refNew32(a uint64) uint64 {
	if a>>32 != 0 {
		return math.MaxUint32
	}
	return a
}

func refCompose(steps []countStep) (uint64, uint64) {
	var c32, c64 uint64
	for _, s := range steps {
		switch s.Op {
		case "inc32", "plus32":
			c32 = refPlus32(c32, refNew32(s.X))
		case "inc64", "plus64":
			c64 = refPlus64(c64, s.X)
		case "inc64from32":
			c64 = refPlus64(c64, c32)
		case "max32", "maxp32":
			if x := refNew32(s.X); x > c32 {
				c32 = x
			}
		case "max64":
			if s.X > c64 {
				c64 = s.X
			}
		}
	}
	return c32, c64
}

func interesting(rng *rand.Rand, width uint) uint64 {
	var max uint64 = math.MaxUint64
	if width == 32 {
		max = math.MaxUint32
	}
	switch rng.Intn(6) {
	case 0:
		return rng.Uint64() & max
	case 1:
		k := uint(rng.Intn(int(width)))
		return ((uint64(1) << k) + uint64(rng.Intn(5)) - 2) & max
	case 2:
		return max - uint64(rng.Intn(1000))
	case 3:
		return uint64(rng.Intn(1000))
	case 4:
		return (max/2 + uint64(rng.Intn(2001)) - 1000) & max
	default:
		return (rng.Uint64() >> uint(rng.Intn(64))) & max
	}
}

var composeOps = []string{"inc32", "inc64", "inc64from32", "max32", "max64", "maxp32", "plus32", "plus64"}

// countsBulk: apidrv counts-bulk <seed> <npairs> <ncompose>
func countsBulk(args []string) {
	seed, _ := strconv.ParseInt(args[0], 10, 64)
	n, _ := strconv.Atoi(args[1])
	nc, _ := strconv.Atoi(args[2])
	rng := rand.New(rand.NewSource(seed))
	type mm struct {
		Op   string      `json:"op"`
		W    int         `json:"w"`
		A    uint64      `json:"a"`
		B    uint64      `json:"b"`
		Got  interface{} `json:"got"`
		Want interface{} `json:"want"`
	}
	var mismatches []mm
	var samples []mm
	evals := 0
	saturating := 0
	add := func(m mm) {
		if len(mismatches) < 50 {
			mismatches = append(mismatches, m)
		}
	}
	for i := 0; i < n; i++ {
		a32, b32 := interesting(rng, 32), interesting(rng, 32)
		a64, b64 := interesting(rng, 64), interesting(rng, 64)
		// 32
		got := uint64(counts.Count32(a32).Plus(counts.Count32(b32)))
		want := refPlus32(a32, b32)
		if want == math.MaxUint32 {
			saturating++
		}
		if got != want {
			add(mm{"plus", 32, a32, b32, got, want})
		}
		x := counts.Count32(a32)
		x.Increment(counts.Count32(b32))
		if uint64(x) != want {
			add(mm{"inc", 32, a32, b32, uint64(x), want})
		}
		if g := uint64(counts.NewCount32(a64)); g != refNew32(a64) {
			add(mm{"new32", 32, a64, 0, g, refNew32(a64)})
		}
		x = counts.Count32(a32)
		r := x.AdjustMaxIfNecessary(counts.Count32(b32))
		mx := a32
		if b32 > mx {
			mx = b32
		}
		if uint64(x) != mx || (r && b32 < a32) || (!r && b32 > a32) {
			add(mm{"adjn", 32, a32, b32, []interface{}{uint64(x), r}, []interface{}{mx, "b>a"}})
		}
		x = counts.Count32(a32)
		r = x.AdjustMaxIfPossible(counts.Count32(b32))
		if uint64(x) != mx || (r && b32 < a32) || (!r && b32 > a32) {
			add(mm{"adjp", 32, a32, b32, []interface{}{uint64(x), r}, []interface{}{mx, "b>=a"}})
		}
		if v, o := counts.Count32(a32).ToUint64(); v != a32 || o != (a32 == math.MaxUint32) {
			add(mm{"tou64", 32, a32, 0, []interface{}{v, o}, a32})
		}
		// 64
		got = uint64(counts.Count64(a64).Plus(counts.Count64(b64)))
		want = refPlus64(a64, b64)
		if want == math.MaxUint64 {
			saturating++
		}
		if got != want {
			add(mm{"plus", 64, a64, b64, got, want})
		}
		y := counts.Count64(a64)
		y.Increment(counts.Count64(b64))
		if uint64(y) != want {
			add(mm{"inc", 64, a64, b64, uint64(y), want})
		}
		y = counts.Count64(a64)
		r = y.AdjustMaxIfNecessary(counts.Count64(b64))
		mx = a64
		if b64 > mx {
			mx = b64
		}
		if uint64(y) != mx || (r && b64 < a64) || (!r && b64 > a64) {
			add(mm{"adjn", 64, a64, b64, []interface{}{uint64(y), r}, []interface{}{mx, "b>a"}})
		}
		y = counts.Count64(a64)
		r = y.AdjustMaxIfPossible(counts.Count64(b64))
		if uint64(y) != mx || (r && b64 < a64) || (!r && b64 > a64) {
			add(mm{"adjp", 64, a64, b64, []interface{}{uint64(y), r}, []interface{}{mx, "b>=a"}})
		}
		if v, o := counts.Count64(a64).ToUint64(); v != a64 || o != (a64 == math.MaxUint64) {
			add(mm{"tou64", 64, a64, 0, []interface{}{v, o}, a64})
		}
		evals += 11
		if i < 5 {
			samples = append(samples, mm{"plus", 64, a64, b64, got, want})
		}
	}
	composeSat := 0
	for i := 0; i < nc; i++ {
		k := 1 + rng.Intn(50)
		steps := make([]countStep, k)
		for j := range steps {
			op := composeOps[rng.Intn(len(composeOps))]
			w := uint(64)
			steps[j] = countStep{op, interesting(rng, w)}
			if rng.Intn(3) == 0 {
				steps[j].X = interesting(rng, 32)
			}
		}
		g32, g64 := runCompose(steps)
		w32, w64 := refCompose(steps)
		if w32 == math.MaxUint32 || w64 == math.MaxUint64 {
			composeSat++
		}
		if uint64(g32) != w32 || uint64(g64) != w64 {
			b, _ := json.Marshal(steps)
			add(mm{"compose:" + string(b), 0, 0, 0, []uint64{uint64(g32), uint64(g64)}, []uint64{w32, w64}})
		}
		evals++
	}
	emit(map[string]interface{}{
		"evaluations": evals, "pairs": n, "compositions": nc,
		"saturating_results": saturating, "saturating_compositions": composeSat,
		"mismatches": mismatches, "samples": samples,
	})
}
