package verifh

// Coverage-guided fuzz targets for the object and listing parsers (C16).
// In-target oracles: no panic, termination, returned strings are sub-slices of
// the input, agreement with a small reference parser on inputs the reference
// classifies as well-formed (on malformed input only totality is required).

import (
	"bytes"
	"encoding/hex"
	"fmt"
	"strconv"
	"strings"
	"testing"

	"github.com/github/git-sizer/git"
)

var zeroOID, _ = git.NewOID("0000000000000000000000000000000000000000")

type refEntry struct {
	mode uint64
	name string
	oid  string
}

// refTree: reference tree parser; ok=false when the input is not well-formed.
func refTree(data []byte) (ents []refEntry, canonical bool, ok bool) {
	canonical = true
	for len(data) > 0 {
		sp := bytes.IndexByte(data, ' ')
		if sp <= 0 {
			return nil, false, false
		}
		ms := data[:sp]
		var mode uint64
		for _, c := range ms {
			if c < '0' || c > '7' {
				return nil, false, false
			}
			mode = mode*8 + uint64(c-'0')
			if mode > 0xffffffff {
				return nil, false, false
			}
		}
		if strconv.FormatUint(mode, 8) != string(ms) {
			canonical = false
		}
		data = data[sp+1:]
		nul := bytes.IndexByte(data, 0)
		if nul < 0 {
			return nil, false, false
		}
		name := string(data[:nul])
		data = data[nul+1:]
		if len(data) < 20 {
			return nil, false, false
		}
		ents = append(ents, refEntry{mode, name, hex.EncodeToString(data[:20])})
		data = data[20:]
	}
	return ents, canonical, true
}

func FuzzParseTree(f *testing.F) {
	f.Add([]byte("100644 a\x0001234567890123456789"))
	f.Add([]byte("40000 dir\x0001234567890123456789100755 x y\x00abcdefghijklmnopqrst"))
	f.Add([]byte(""))
	f.Fuzz(func(t *testing.T, data []byte) {
		tree, err := git.ParseTree(zeroOID, data)
		if err != nil {
			return
		}
		if uint64(tree.Size()) != uint64(len(data)) && len(data) < 1<<32 {
			t.Fatalf("size %d != %d", tree.Size(), len(data))
		}
		it := tree.Iter()
		var got []refEntry
		var perr error
		for i := 0; ; i++ {
			if i > len(data)+1 {
				t.Fatalf("iterator does not terminate")
			}
			e, ok, err := it.NextEntry()
			if err != nil {
				perr = err
				break
			}
			if !ok {
				break
			}
			if !strings.Contains(string(data), e.Name) {
				t.Fatalf("name %q is not part of the input", e.Name)
			}
			got = append(got, refEntry{uint64(e.Filemode), e.Name, e.OID.String()})
		}
		want, canonical, ok := refTree(data)
		if !ok {
			return // malformed for the reference: totality only
		}
		if perr != nil {
			// rejecting is only wrong for trees git itself accepts: known modes, non-empty names without '/'
			for _, e := range want {
				switch e.mode {
				case 0o40000, 0o100644, 0o100755, 0o120000, 0o160000, 0o100664:
				default:
					return
				}
				if e.name == "" || strings.Contains(e.name, "/") {
					return
				}
			}
			t.Fatalf("well-formed tree rejected: %v", perr)
		}
		if len(got) != len(want) {
			t.Fatalf("entries: got %d want %d", len(got), len(want))
		}
		var re bytes.Buffer
		for i := range got {
			if got[i] != want[i] {
				t.Fatalf("entry %d: got %+v want %+v", i, got[i], want[i])
			}
			o, _ := hex.DecodeString(got[i].oid)
			fmt.Fprintf(&re, "%o %s\x00%s", got[i].mode, got[i].name, o)
		}
		if canonical && !bytes.Equal(re.Bytes(), data) {
			t.Fatalf("re-serialisation differs")
		}
	})
}

// refHeaders: the header block split into (key, value) pairs; ok=false if not well-formed.
func refHeaders(data []byte) (kv [][2]string, ok bool) {
	if len(data) == 0 {
		return nil, false
	}
	hdr := data
	if i := bytes.Index(data, []byte("\n\n")); i >= 0 {
		hdr = data[:i+1]
	} else if data[len(data)-1] != '\n' {
		return nil, false
	}
	for len(hdr) > 0 {
		nl := bytes.IndexByte(hdr, '\n')
		line := hdr[:nl]
		hdr = hdr[nl+1:]
		sp := bytes.IndexByte(line, ' ')
		if sp < 0 {
			return nil, false
		}
		kv = append(kv, [2]string{string(line[:sp]), string(line[sp+1:])})
	}
	return kv, true
}

func isHex40(s string) bool {
	if len(s) != 40 {
		return false
	}
	for i := 0; i < len(s); i++ {
		c := s[i]
		if !(c >= '0' && c <= '9' || c >= 'a' && c <= 'f' || c >= 'A' && c <= 'F') {
			return false
		}
	}
	return true
}

const h1 = "1111111111111111111111111111111111111111"
const h2 = "2222222222222222222222222222222222222222"

func FuzzParseCommit(f *testing.F) {
	f.Add([]byte("tree " + h1 + "\nparent " + h2 + "\nauthor A <a@b> 1 +0000\ncommitter A <a@b> 1 +0000\n\nmsg\nparent " + h1 + "\n"))
	f.Add([]byte("tree " + h1 + "\nauthor A <a@b> 1 +0000\ncommitter A <a@b> 1 +0000\ngpgsig -----BEGIN\n \n tree " + h2 + "\n -----END\n\nm"))
	f.Add([]byte("tree " + h1 + "\n"))
	f.Fuzz(func(t *testing.T, data []byte) {
		c, err := git.ParseCommit(zeroOID, data)
		kv, ok := refHeaders(data)
		if !ok {
			return
		}
		var trees, parents []string
		wf := true
		for _, p := range kv {
			switch p[0] {
			case "tree":
				trees = append(trees, p[1])
				if !isHex40(p[1]) {
					wf = false
				}
			case "parent":
				parents = append(parents, p[1])
				if !isHex40(p[1]) {
					wf = false
				}
			}
		}
		if !wf || len(trees) != 1 {
			return
		}
		if err != nil {
			// rejecting is only wrong for header blocks of the shape git writes: tree first, then parents, then other
			// headers (continuation lines start with a space and have the key "")
			if len(kv) == 0 || kv[0][0] != "tree" {
				return
			}
			seenOther := false
			for _, p := range kv[1:] {
				if p[0] == "parent" {
					if seenOther {
						return
					}
				} else {
					seenOther = true
				}
			}
			t.Fatalf("well-formed commit rejected: %v", err)
		}
		if !strings.EqualFold(c.Tree.String(), trees[0]) {
			t.Fatalf("tree: got %s want %s", c.Tree, trees[0])
		}
		if len(c.Parents) != len(parents) {
			t.Fatalf("parents: got %d want %d", len(c.Parents), len(parents))
		}
		for i := range parents {
			if !strings.EqualFold(c.Parents[i].String(), parents[i]) {
				t.Fatalf("parent %d differs", i)
			}
		}
		if uint64(c.Size) != uint64(len(data)) {
			t.Fatalf("size")
		}
	})
}

func FuzzParseTag(f *testing.F) {
	f.Add([]byte("object " + h1 + "\ntype commit\ntag v1\ntagger T <t@x> 1 +0000\n\nmsg\nobject " + h2 + "\ntype blob\n"))
	f.Add([]byte("object " + h1 + "\ntype tag\ntag x\n"))
	f.Fuzz(func(t *testing.T, data []byte) {
		tg, err := git.ParseTag(zeroOID, data)
		kv, ok := refHeaders(data)
		if !ok {
			return
		}
		var objs, types []string
		for _, p := range kv {
			switch p[0] {
			case "object":
				objs = append(objs, p[1])
			case "type":
				types = append(types, p[1])
			}
		}
		if len(objs) != 1 || len(types) != 1 || !isHex40(objs[0]) {
			return
		}
		if err != nil {
			// rejecting is only wrong for the header order git writes (object, type first) and a known type
			if len(kv) < 2 || kv[0][0] != "object" || kv[1][0] != "type" {
				return
			}
			switch types[0] {
			case "commit", "tree", "blob", "tag":
			default:
				return
			}
			t.Fatalf("well-formed tag rejected: %v", err)
		}
		if !strings.EqualFold(tg.Referent.String(), objs[0]) || string(tg.ReferentType) != types[0] {
			t.Fatalf("got %s %s want %s %s", tg.Referent, tg.ReferentType, objs[0], types[0])
		}
	})
}

func FuzzHeaderIter(f *testing.F) {
	f.Add([]byte("a b\nc d\n\nrest"))
	f.Fuzz(func(t *testing.T, data []byte) {
		it, err := git.NewObjectHeaderIter("x", data)
		if err != nil {
			return
		}
		for i := 0; it.HasNext(); i++ {
			if i > len(data)+1 {
				t.Fatalf("iterator does not terminate")
			}
			k, v, err := it.Next()
			if err != nil {
				return
			}
			if !strings.Contains(string(data), k) || !strings.Contains(string(data), v) {
				t.Fatalf("key/value not part of the input")
			}
			if i := bytes.Index(data, []byte("\n\n")); i >= 0 {
				// never text from after the blank line
				if !strings.Contains(string(data[:i+1]), k+" "+v+"\n") {
					t.Fatalf("header %q %q is not a line of the header block", k, v)
				}
			}
		}
	})
}

func FuzzParseReference(f *testing.F) {
	f.Add(h1 + " commit 123 refs/heads/main")
	f.Add(h1 + " tag 99999999999 refs/tags/v1")
	f.Fuzz(func(t *testing.T, line string) {
		r, err := git.ParseReference(line)
		w := strings.Split(line, " ")
		if len(w) != 4 || !isHex40(w[0]) {
			return
		}
		n, perr := strconv.ParseUint(w[2], 10, 64)
		if perr != nil || w[2] == "" || w[2][0] == '+' {
			return
		}
		if err != nil {
			t.Fatalf("well-formed reference line rejected: %v", err)
		}
		if r.Refname != w[3] || string(r.ObjectType) != w[1] || !strings.EqualFold(r.OID.String(), w[0]) {
			t.Fatalf("fields differ: %+v", r)
		}
		want := n
		if want > 0xffffffff {
			want = 0xffffffff
		}
		if uint64(r.ObjectSize) != want {
			t.Fatalf("size %d want %d", r.ObjectSize, want)
		}
	})
}

func FuzzParseBatchHeader(f *testing.F) {
	f.Add(h1 + " blob 12\n")
	f.Add(h1 + " missing\n")
	f.Add("\n")
	f.Add("")
	f.Fuzz(func(t *testing.T, header string) {
		h, err := git.ParseBatchHeader("", header)
		if !strings.HasSuffix(header, "\n") {
			return
		}
		w := strings.Split(header[:len(header)-1], " ")
		if len(w) != 3 || !isHex40(w[0]) {
			return
		}
		n, perr := strconv.ParseUint(w[2], 10, 64)
		if perr != nil || w[2] == "" || w[2][0] == '+' {
			return
		}
		if err != nil {
			t.Fatalf("well-formed header rejected: %v", err)
		}
		if string(h.ObjectType) != w[1] || !strings.EqualFold(h.OID.String(), w[0]) {
			t.Fatalf("fields differ")
		}
		v, _ := h.ObjectSize.ToUint64()
		if v != n && !(v == 0xffffffff && n > 0xffffffff) {
			t.Fatalf("size %d want %d", v, n)
		}
	})
}
