"""Common driver for the campaign-based properties (C01-C04, C08)."""
import collections

from .. import campaign as C
from .. import run as R


def run_campaign(chk, b, profiles, ncases, facets, sig_prefix, nontrivial_fn, rule, want_table=False,
                 names_modes=("full", "full", "hash", "none"), permute=0.0, nsel=3, sigfn=None, cut_refs=0.0):
    sz = b.sizer()
    shim = b.shimdir()
    scratch = b.scratchdir()
    specs = []
    for i in range(ncases):
        prof = profiles[i % len(profiles)]
        if i % 60 == 7:
            prof = "scale"
        specs.append(dict(seed=R.SEED, idx=i, profile=prof, sizer=sz, scratch=scratch, shimdir=shim,
                          want_table=want_table, names_modes=list(names_modes), permute=permute, nsel=nsel,
                          cut_refs=cut_refs))
    results = R.pmap(C.run_case, specs, chunksize=4, chk=chk)
    stats = collections.Counter()
    for r in results:
        chk.count(r["runs"])
        stats["repositories"] += 1
        for m in r["inconclusive"]:
            chk.inconc(m)
        for nt in r["nontrivial"]:
            key = nontrivial_fn(nt)
            if key:
                chk.nontrivial((r["idx"], stats["ntkey"]))
                stats["ntkey"] += 1
                for k in key:
                    stats["nt:" + k] += 1
            stats["table_witnesses_judged"] += nt.get("table_witnesses", 0)
            stats["json_witnesses_judged"] += nt.get("witnesses_cited", 0)
            stats["descriptions_resolved_by_git"] += nt.get("described", 0)
            if nt.get("permuted"):
                stats["runs_behind_permuting_shim"] += 1
        stats["runs_with_an_injected_git_fault"] += r.get("faulted_runs", 0)
        stats["generator_discards"] += r.get("discarded", 0)
        stats["runs_with_stalling_children"] += r.get("stalled_runs", 0)
        stats["runs_with_for_each_ref_output_cut_mid_line"] += r.get("cut_ref_runs", 0)
        for s in r["samples"]:
            chk.sample(s)
        for facet, items in r["findings"].items():
            if facet not in facets and facet not in ("fail", "hang", "selection"):
                continue
            for kind, key, det in items:
                sig = None
                if sigfn:
                    sig = sigfn(facet, kind, key, det)
                if sig is None:
                    sig = "%s/%s/%s/%s" % (sig_prefix, facet, kind, key)
                chk.violation(sig, det)
    for k, v in stats.items():
        if k != "ntkey":
            chk.cov[k] = v
    chk.cov["rule"] = rule
    chk.cov["profiles"] = list(profiles)
    if want_table and not stats["table_witnesses_judged"]:
        chk.inconc("no table footnote was judged")
    if chk.cov["evaluations"] == 0 or len(chk._distinct) < 2:
        chk.inconc("campaign observed too few non-trivial executions")
    return results
