#!/bin/bash
# usage: tools/quick_sweep.sh <seed> [seed...]  - runs every quick check at the given seeds; prints only non-clean lines + timings
cd /verif
for s in "$@"; do
  line=""
  for p in C01 C02 C03 C04 C05 C06 C07 C08 C09 C10 C11 C12 C13 C14 C15 C16 C17 C18 C19; do
    t0=$(date +%s.%N)
    VERIF_SEED=$s ./check $p --tier quick > /tmp/qs.$p.$s 2>&1; rc=$?
    t1=$(date +%s.%N)
    line="$line $p:$(printf %.0f $(echo "$t1 - $t0" | bc))s"
    [ $rc -ne 0 ] && { echo "seed $s $p rc=$rc"; grep -E "^VIOLATION|signature|INCONCLUSIVE" /tmp/qs.$p.$s | head -4; }
  done
  echo "seed $s:$line"
done
