"""C08 Footnotes name a real witness of each maximum."""
from ._camp import run_campaign

LEVEL = "exploration"


def sigfn(facet, kind, key, det):
    if facet != "witness":
        return None
    if kind == "desc-unresolvable":
        desc = det.get("desc") or b""
        if isinstance(desc, str):
            desc = desc.encode("utf-8", "surrogateescape")
        if desc.startswith(b"???"):
            return "C08/desc-unresolvable/unnamed-tree-prefix-???"
        for r in det.get("tree_roots", []):
            rb = r.encode()
            if desc.startswith(rb + b"/") and b":" not in rb:
                return "C08/desc-unresolvable/tree-root-joined-with-slash"
        if b"\n" in desc:
            return "C08/desc-unresolvable/lf-in-name"
        return "C08/desc-unresolvable/other/" + key
    return "C08/%s/%s" % (kind, key)


def run(chk, b, tier):
    n = 240 if tier == "quick" else 12000

    def nt(f):
        k = []
        if f["witnesses_cited"] >= 1:
            k.append("cites>=1")
            if f["described"]:
                k.append("has-description")
        return k

    run_campaign(chk, b, ["roots", "general", "hostile-names", "trees", "roots", "dag"], n, ["witness"], "C08", nt,
                 "campaign with emphasis on root kinds (maxima reachable only through a tag, a ref to a tree/blob, a ROOT "
                 "spelled rev:path / rev^{tree} / oid / abbreviation; branch+tag with the same short name; hostile file "
                 "names). For each of the 12 cited metrics (JSON v1 and the -v table footnotes, raw bytes): oid reachable, "
                 "right kind, in the model's witness set; description resolved by `git rev-parse --verify` must give "
                 "exactly that oid; --names=hash shows no description, --names=none cites nothing. 30% of runs behind the "
                 "permuting shim. Non-trivial: run cites >=1 object.",
                 want_table=True, names_modes=("full", "full", "full", "hash", "none"), permute=0.3, sigfn=sigfn, cut_refs=0.08, tail_sweep=12)
    chk.assumptions += ["git rev-parse is the judge of whether a description resolves",
                        "reference model's witness sets (all objects attaining the maximum) trusted"]
