"""Common driver for the campaign-based properties (C01-C04, C08)."""
import collections

from .. import campaign as C
from .. import run as R


def run_campaign(chk, b, profiles, ncases, facets, sig_prefix, nontrivial_fn, rule, want_table=False,
                 names_modes=("full", "full", "hash", "none"), permute=0.0, nsel=3, sigfn=None, cut_refs=0.0, tail_sweep=0):
    sz = b.sizer()
    shim = b.shimdir()
    scratch = b.scratchdir()
    specs = []
    for i in range(ncases):
        prof = profiles[i % len(profiles)]
        if i % 60 == 7:
            prof = "scale"
        specs.append(dict(seed=R.SEED, idx=i, profile=prof, sizer=sz, scratch=scratch, shimdir=shim,
                          want_table=want_table, names_modes=list(names_modes), permute=permute, nsel=nsel,
                          cut_refs=cut_refs, tail_sweep=tail_sweep))
    results = R.pmap(C.run_case, specs, chunksize=4, chk=chk)
    stats = collections.Counter()
    for r in results:
        chk.count(r["runs"])
        stats["repositories"] += 1
        for m in r["inconclusive"]:
            chk.inconc(m)
        for nt in r["nontrivial"]:
            key = nontrivial_fn(nt)
            if key:
                chk.nontrivial((r["idx"], stats["ntkey"]))
                stats["ntkey"] += 1
                for k in key:
                    stats["nt:" + k] += 1
            stats["table_witnesses_judged"] += nt.get("table_witnesses", 0)
            stats["json_witnesses_judged"] += nt.get("witnesses_cited", 0)
            stats["descriptions_resolved_by_git"] += nt.get("described", 0)
            if nt.get("permuted"):
                stats["runs_behind_permuting_shim"] += 1
        stats["runs_with_an_injected_git_fault"] += r.get("faulted_runs", 0)
        stats["generator_discards"] += r.get("discarded", 0)
        stats["repositories_in_promisor_layout"] += 1 if r.get("promisor_layout") else 0
        stats["runs_with_a_stalled_or_slow_stderr_reader"] += r.get("slow_stderr_runs", 0)
        stats["runs_with_children_delivering_in_one_burst"] += r.get("burst_runs", 0)
        stats["runs_with_children_starting_seconds_late"] += r.get("late_start_runs", 0)
        stats["runs_with_the_batch_stream_cut_inside_its_last_record"] += r.get("tail_cut_runs", 0)
        stats["runs_with_stalling_children"] += r.get("stalled_runs", 0)
        stats["runs_with_for_each_ref_output_cut_mid_line"] += r.get("cut_ref_runs", 0)
        for s in r["samples"]:
            chk.sample(s)
        for facet, items in r["findings"].items():
            if facet not in facets and facet not in ("fail", "hang", "selection"):
                continue
            for kind, key, det in items:
                sig = None
                if sigfn:
                    sig = sigfn(facet, kind, key, det)
                if sig is None:
                    sig = "%s/%s/%s/%s" % (sig_prefix, facet, kind, key)
                chk.violation(sig, det)
    for k, v in stats.items():
        if k != "ntkey":
            chk.cov[k] = v
    chk.cov["rule"] = rule
    chk.cov["profiles"] = list(profiles)
    if want_table and not stats["table_witnesses_judged"]:
        chk.inconc("no table footnote was judged")
    if chk.cov["evaluations"] == 0 or len(chk._distinct) < 2:
        chk.inconc("campaign observed too few non-trivial executions")
    return results


# ---------------------------------------------------------------------------------------------------------------------
# Library-level scans with pauses at the points where the scanning code calls out of its goroutines (progress meter,
# reference grouper).  The command line tool's own meter never blocks, so these interleavings are out of its reach; a
# program that uses the packages with its own meter.Progress gets them for free.

DELAY_PLANS = [
    ("none", []),
    ("slow-inc/blobs", [{"phase": "blobs", "op": "inc", "us": 2000, "every": 1}]),
    ("slow-inc/trees", [{"phase": "trees", "op": "inc", "us": 1500, "every": 1}]),
    ("slow-inc/commits", [{"phase": "Processing commits", "op": "inc", "us": 1500, "every": 1}]),
    ("slow-inc/matching", [{"phase": "Matching", "op": "inc", "us": 1500, "every": 1}]),
    ("slow-inc/tags", [{"phase": "tags", "op": "inc", "us": 3000, "every": 1}]),
    ("slow-inc/references", [{"phase": "references", "op": "inc", "us": 3000, "every": 1}]),
    ("slow-start", [{"phase": "", "op": "start", "us": 50000}]),
    ("slow-done", [{"phase": "", "op": "done", "us": 50000}]),
    ("slow-categorize", [{"phase": "", "op": "categorize", "us": 3000}]),
    ("late-burst/blobs", [{"phase": "blobs", "op": "inc", "us": 40000, "every": 7, "from": 3}]),
]


BIG_DELAY_PLANS = [
    ("none", []),
    ("one-long-pause/first-tree", [{"phase": "trees", "op": "inc", "us": 400000, "once": True, "from": 1}]),
    ("one-long-pause/100th-tree", [{"phase": "trees", "op": "inc", "us": 400000, "once": True, "from": 100}]),
    ("one-long-pause/first-commit", [{"phase": "Processing commits", "op": "inc", "us": 400000, "once": True, "from": 1}]),
    ("one-long-pause/first-blob", [{"phase": "blobs", "op": "inc", "us": 400000, "once": True, "from": 1}]),
    ("one-long-pause/first-tag", [{"phase": "tags", "op": "inc", "us": 400000, "once": True, "from": 1}]),
]


def _delay_job(arg):
    import os
    import random
    import shutil
    from .. import gen as G
    from .. import oracle as O
    from .. import parse_out as P
    seed, idx, drvbin, scratch, tag = arg
    rng = random.Random("apidelay|%s|%d|%d" % (tag, seed, idx))
    d = os.path.join(scratch, "apidelay-%s-%d" % (tag, idx))
    os.makedirs(d)
    out = {"obs": [], "inconc": None}
    try:
        plans = DELAY_PLANS
        if idx == 0:
            # thousands of small objects in the second pass, and ONE long pause of the consumer: whoever reads ahead has time
            # to get thousands of objects ahead
            plans = BIG_DELAY_PLANS
            pool = G.Pool(rng)
            m = G.Model()
            prev = None
            for ci in range(72):
                ents = [G.Entry(G.TREE, b"d%02d-%02d" % (ci, j), G.Tree([G.Entry(G.FILE, b"f%d-%d-%s" % (ci, j, b"n" * (j % 9)), pool.new_blob(1 + (ci + j) % 7))]))
                        for j in range(70)]
                prev = G.Commit(G.Tree(ents), [prev] if prev else [], cts=1450000000 + ci, msg=b"c%d\n" % ci)
            m.refs["refs/heads/main"] = prev
            t_ = prev
            for ti in range(30):
                t_ = G.Tag(t_, name=b"n%d" % ti)
            m.refs["refs/tags/nested"] = t_
        else:
            m = G.random_model(rng, size=rng.choice(["small", "medium"]), hostile_names=False, noise=True)
        gitdir = G.write_model(m, os.path.join(d, "repo"), packed_refs=rng.random() < 0.5)
        reach = [o for o in O.reachable(list(m.refs.values())).values() if o.kind == "commit"]
        roots = [rng.choice(reach).oid] if reach and rng.random() < 0.4 else []
        ex = O.compute(list(m.refs.values()))
        want = {k: ex.sat(k) for k in O.CAPS if k != "reference_count"}
        want["reference_count"] = len(m.refs)
        names = rng.choice(["full", "full", "none", "hash"])
        cases = [{"id": i, "dir": gitdir, "names": names, "roots": roots, "delays": plan} for i, (_, plan) in enumerate(plans)]
        obs, rc, err = R.drv(drvbin, "scan", cases, timeout=600)
        if len(obs) != len(cases):
            out["inconc"] = "scan driver answered %d of %d (rc=%s): %r" % (len(obs), len(cases), rc, err[-300:])
            return out
        for o in obs:
            pname = plans[o["id"]][0]
            rec = {"plan": pname, "want": want, "repo": [seed, idx], "names": names, "roots": roots}
            if "panic" in o or "err" in o:
                rec["failed"] = o.get("panic") or o.get("err")
            else:
                js, probs = P.parse_json(o["json"].encode())
                rec["js"] = js
                rec["phase_totals"] = o.get("phase_totals") or {}
            out["obs"].append(rec)
    finally:
        shutil.rmtree(d, ignore_errors=True)
    return out


def api_delay_stage(chk, b, keys, prefix, nrepos, tag=None, phase_totals=False):
    """keys: the JSON v1 keys this property owns. Every (repository, pause plan) scan must give exactly the model's values."""
    drv = b.apidrv()
    scratch = b.scratchdir()
    res = R.pmap(_delay_job, [(R.SEED, i, drv, scratch, tag or prefix) for i in range(nrepos)], chk=chk)
    plans = collections.Counter()
    for r in res:
        if r["inconc"]:
            chk.inconc(r["inconc"])
            continue
        for rec in r["obs"]:
            chk.count()
            plans[rec["plan"]] += 1
            if "failed" in rec:
                chk.violation("%s/library-scan-with-paused-callbacks/scan-failed/%s" % (prefix, rec["plan"].split("/")[0]),
                              {"plan": rec["plan"], "error": str(rec["failed"])[:600], "repo": rec["repo"]})
                continue
            js = rec["js"] or {}
            bad = {k: [rec["want"][k], js.get(k)] for k in keys if js.get(k) != rec["want"][k]}
            if bad:
                chk.violation("%s/library-scan-with-paused-callbacks/value/%s" % (prefix, sorted(bad)[0]),
                              {"plan": rec["plan"], "want_got": bad, "repo": rec["repo"], "names": rec["names"], "roots": rec["roots"]})
            if phase_totals:
                pt = rec["phase_totals"]
                exp = {"Processing blobs: %d": "unique_blob_count", "Processing trees: %d": "unique_tree_count",
                       "Processing commits: %d": "unique_commit_count", "Processing annotated tags: %d": "unique_tag_count",
                       "Processing references: %d": "reference_count"}
                wantp = {ph: rec["want"][k] + (len(rec["roots"]) if k == "reference_count" else 0) for ph, k in exp.items()}
                badp = {ph: [wantp[ph], pt.get(ph)] for ph in exp if pt.get(ph) != wantp[ph]}
                if badp:
                    chk.violation("%s/library-scan-with-paused-callbacks/final-count-differs-from-census" % prefix,
                                  {"plan": rec["plan"], "want_got": badp, "repo": rec["repo"]})
            if rec["plan"] != "none":
                chk.nontrivial(("apidelay", tuple(rec["repo"]), rec["plan"]))
    chk.cov["library_scans_with_paused_callbacks"] = dict(plans)


def generic_fault_sweep(chk, b, prefix, argvs, seed_tag=None, refgroups=True, env=None):
    """One generated repository (with refgroup configuration, so that the per-group `git config` children exist), and for
    each argv the deterministic fault sweep of run.fault_sweep: a run that exits 0 although one of its git children failed
    must print the fault-free bytes. Failing runs are C10's subject and are not judged here."""
    import os
    import random
    import shutil
    from .. import gen as G
    rng = random.Random("gfs|%s|%d" % (seed_tag or prefix, R.SEED))
    d = os.path.join(b.scratchdir(), "gfs-" + prefix.replace("/", "_"))
    shutil.rmtree(d, ignore_errors=True)
    os.makedirs(d)
    m = G.random_model(rng, size="medium", hostile_names=False, noise=False)
    if refgroups:
        m.config = ('[refgroup "tags"]\n\tinclude = refs/heads\n[refgroup "mine"]\n\tname = Mine\n[refgroup "mine.a"]\n\tinclude = refs/heads\n'
                    '[refgroup "mine.b"]\n\tincludeRegexp = refs/(tags|remotes)/.*\n[refgroup "solo"]\n\tinclude = refs\n\texclude = refs/heads\n')
    gitdir = G.write_model(m, os.path.join(d, "repo"))
    total = 0
    for argv in argvs:
        total += R.fault_sweep(chk, prefix, b.sizer(), gitdir, argv, b.shimdir(), d, env=env)
    chk.cov["generic_fault_sweep"] = {"argvs": argvs, "faults_delivered": total}
    shutil.rmtree(d, ignore_errors=True)
    return total


def _vanish_job(arg):
    import os
    import shutil
    from .. import parse_out as P
    sz, shimdir, src, oid, sig, scratch, jid = arg
    d = os.path.join(scratch, "vanish-%d" % jid)
    shutil.copytree(src, os.path.join(d, "repo"))
    gitdir = os.path.join(d, "repo")
    path = os.path.join(gitdir, "objects", oid[:2], oid[2:])
    plan = R.make_plan(os.path.join(d, "plan"), [{"sig": sig, "ord": 0, "mode": "delay", "pre_ms": 500, "unlink": [path], "max_ms": 600}],
                       record=True)
    r = R.sizer(sz, gitdir, ["--json", "--no-progress"], shimdir=shimdir, plan=plan, tmpdir=d, timeout=60)
    evs = R.read_events(os.path.join(d, "plan"))
    gone = not os.path.exists(path) and any("unlinked" in (e.get("delivered") or "") for e in evs)
    shutil.rmtree(d, ignore_errors=True)
    js = None
    if r.rc == 0:
        js, _ = P.parse_json(r.out)
    return {"oid": oid, "sig": sig, "rc": r.rc, "timed_out": r.timed_out, "js": js, "gone": gone, "stderr": r.err[-300:].decode("utf-8", "replace")}


def vanishing_object_stage(chk, b, prefix, keys, tier, must_fail=False):
    """Somebody prunes the repository while it is scanned: an object that `git rev-list` still listed is gone when
    `git cat-file --batch-check` (or, in the second pass, `git cat-file --batch`) gets to it. The run may fail; a run that
    reports success must still report the values of the complete repository for `keys`."""
    import os
    import random
    import shutil
    from .. import gen as G
    from .. import oracle as O
    rng = random.Random("vanish|%s|%d" % (prefix, R.SEED))
    scratch = os.path.join(b.scratchdir(), "vanish-" + prefix)
    shutil.rmtree(scratch, ignore_errors=True)
    os.makedirs(scratch)
    pool = G.Pool(rng)
    m = G.Model()
    prev = None
    chain = []
    for i in range(6):
        prev = G.Commit(pool.new_tree(max_depth=2, max_entries=4, allow_empty=False), [prev] if prev else [], cts=1400000000 + i, msg=b"c%d\n" % i)
        chain.append(prev)
    side = G.Commit(pool.new_tree(max_depth=1, allow_empty=False), [chain[1]], cts=1400000100, msg=b"side\n")
    t = chain[2]
    tags = []
    for i in range(4):
        t = G.Tag(t, name=b"nest%d" % i)
        tags.append(t)
    m.refs = {"refs/heads/main": chain[-1], "refs/heads/side": side, "refs/tags/nested": tags[-1], "refs/tags/inner": tags[1]}
    src = G.write_model(m, os.path.join(scratch, "src"))
    ex = O.compute(list(m.refs.values()))
    want = {k: ex.sat(k) for k in keys}
    victims = [chain[-1], chain[-2], chain[0], side, tags[-1], tags[-2], tags[0], chain[-1].tree, chain[3].tree]
    blobs = [o for o in ex.reach.values() if o.kind == "blob"]
    victims += blobs[:2]
    jobs = []
    for v in victims:
        for sig in ("cat-file --batch-check", "cat-file --batch"):
            if sig == "cat-file --batch" and v.kind == "blob":
                continue
            jobs.append((b.sizer(), b.shimdir(), src, v.oid, sig, scratch, len(jobs)))
    res = R.pmap(_vanish_job, jobs, chk=chk)
    delivered = 0
    kinds = {v.oid: v.kind for v in victims}
    for r in res:
        chk.count()
        if not r["gone"]:
            continue
        delivered += 1
        chk.nontrivial(("vanish", r["oid"], r["sig"]))
        if r["timed_out"]:
            chk.inconc("watchdog in a vanishing-object run")
        elif r["rc"] == 0 and must_fail:
            chk.violation("%s/object-vanished-during-the-scan/exit-0-although-a-required-object-is-missing/%s/%s" % (
                prefix, kinds[r["oid"]], r["sig"].split(" ")[-1]), {"object": r["oid"], "kind": kinds[r["oid"]], "gone_before": r["sig"]})
        elif r["rc"] == 0:
            js = r["js"] or {}
            bad = {k: [want[k], js.get(k)] for k in keys if js.get(k) != want[k]}
            if bad:
                chk.violation("%s/object-vanished-during-the-scan/exit-0-with-other-values/%s/%s" % (prefix, kinds[r["oid"]], r["sig"].split(" ")[-1]),
                              {"object": r["oid"], "kind": kinds[r["oid"]], "gone_before": r["sig"], "want_got": bad})
    chk.cov["vanishing_object_runs_delivered"] = delivered
    if not delivered:
        chk.inconc("no vanishing-object run was delivered")
    shutil.rmtree(scratch, ignore_errors=True)
