#!/usr/bin/env python3
"""Regenerates /verif/MANIFEST.json from the table below (kept in one place so that it stays valid)."""
import json
import os

VERIF = os.path.dirname(os.path.dirname(os.path.abspath(__file__)))

CHECKS = {
    "C01": dict(cat="exploration", tech="differential runtime monitor: real binary vs independent reference model on generated repositories",
                text="Runs the real binary on generated repositories (hundreds quick / thousands thorough) with varied root selections and compares the 8 census numbers with an independent big-integer reference model of the reachable set; holds on the executions listed in the evidence, nothing more.",
                note="trusted: python generator + reference model (cross-checked against git cat-file on every case), git 2.39.5, JSON parser", ref="4 C01"),
    "C02": dict(cat="exploration", tech="differential runtime monitor vs reference model; listing order perturbed by git shim",
                text="Same campaign; the four per-object maxima are compared with the model's maxima, with the maximal object met at varying listing positions (shim permute mode).",
                note="trusted: generator + reference model, git 2.39.5", ref="4 C02"),
    "C03": dict(cat="exploration", tech="differential runtime monitor vs DP on generated commit DAGs / tag forests under adversarial timestamps",
                text="DAG shapes x timestamp profiles x tag forests; depth numbers compared with a DP on the model; panics are violations.",
                note="trusted: generator + reference model, git 2.39.5 --date-order", ref="4 C03"),
    "C04": dict(cat="exploration", tech="differential runtime monitor vs memoised big-integer tree expansion",
                text="Tree DAGs with sharing, every entry kind and hostile names; the seven checkout numbers compared with the reference expansion, each dimension on its own.",
                note="trusted: generator + reference model", ref="4 C04"),
}

NOT_APPLICABLE = {
}


def main():
    checks = []
    for pid in sorted(CHECKS):
        c = CHECKS[pid]
        checks.append({
            "property_id": pid,
            "quick_cmd": "./check %s --tier quick" % pid,
            "thorough_cmd": "./check %s --tier thorough" % pid,
            "evidence_file": "/verif/evidence/%s.json" % pid,
            "replay_cmd_template": "./check %s --replay {path}" % pid,
            "engine": "vf",
            "level_claimed": {"category": c["cat"], "text": c["text"], "design_ref": "DESIGN.md section " + c["ref"]},
            "level_note": c["note"],
            "technique": c["tech"],
        })
    props = [json.loads(l)["id"] for l in open(os.path.join(VERIF, "properties.jsonl"))]
    na = []
    for pid in props:
        if pid not in CHECKS:
            na.append({"property_id": pid, "reason": NOT_APPLICABLE.get(pid, "check not built yet (work in progress); not claimed")})
    m = {
        "version": 1,
        "setup_cmd": "./setup.sh",
        "hooks": {
            "guard": "verif",
            "enable": "go build -tags verif (checks build /repo's working tree into /verif/build/<pid>/ with this tag)",
            "baseline_off_cmd": "cd /repo && go test -mod=mod -json -vet=off -count=1 -timeout 25m ./...",
            "source_commits": [],
            "add_only": True,
        },
        "engines": [
            {"name": "vf", "path": "/verif/vf", "serves_properties": sorted(CHECKS),
             "kind_free_text": "python orchestrator: repository generator + reference model + output parsers + monitors; Go driver (harness/) linking the real packages; git shim (shim/) for delay/fault/permute injection; Go race detector; strace"},
        ],
        "checks": checks,
        "not_applicable": na,
        "notes": "All verdicts are about the executions listed in evidence/*.json (runtime monitoring). Exit 3 = inconclusive (machinery failure), never used for property verdicts.",
    }
    with open(os.path.join(VERIF, "MANIFEST.json"), "w") as f:
        json.dump(m, f, indent=1)
        f.write("\n")


if __name__ == "__main__":
    main()
