"""C15 Refgroup definitions in gitconfig are read faithfully."""
import base64
import os
import random
import shutil

from .. import gen as G
from .. import parse_out as P
from .. import run as R
from .. import select as S

LEVEL = "exploration"

REFS = ["refs/heads/main", "refs/heads/dev", "refs/heads/feature/a", "refs/tags/v1", "refs/tags/release/1",
        "refs/remotes/origin/main", "refs/notes/commits", "refs/misc/a", "refs/misc/b/c", "refs/wip/1",
        "refs/heads/rel/1", "refs/heads/release/2", "refs/heads/release/3", "refs/misc/ab/x"]

SUBSECTIONS = ["a", "ab", "a.b", "a.b.c", "Team", "team", "My Group", "x.Y.z", "q\"t", "b\\s", "été", "tags.rel", "branches.x",
               "a-b", "1", "deep.er.and.deeper", "sp ace.d ot", "a.", "x..y", "dot.dot.."]
VALUES = ["", "x", "refs/heads", "refs/tags/", "a b", " lead", "trail ", "multi\nline", "two\nnew\nlines\n", "with=equals",
          "k=v=w", "q\"uote", "back\\slash", "#notcomment", ";semi", "ünï", "tab\there", "\x01\x02ctl", "x" * 3000,
          "refs/misc", ".*", "refs/(heads|tags)/.*", "[section]", "key\nrefgroup.fake.include\nrefs/heads"]
FOREIGN = [("core", None, "flag"), ("user", None, "name"), ("alias", None, "co"), ("refgroupx", "a", "include"),
           ("refgroups", None, "include"), ("xrefgroup", "a", "include"), ("branch", "main", "remote"),
           ("remote", "origin", "url"), ("sizer", None, "names2"), ("refgroup", None, "include"), ("refgroup", None, "name"),
           ("include2", None, "path")]
FIELDS = ["include", "exclude", "includeRegexp", "excludeRegexp", "name", "Include", "INCLUDE", "unknownkey", "include-x"]


def q_sub(s):
    return s.replace("\\", "\\\\").replace('"', '\\"')


def q_val(v):
    out = v.replace("\\", "\\\\").replace('"', '\\"').replace("\n", "\\n").replace("\t", "\\t")
    return '"' + out + '"'


def render(entries):
    lines = []
    for sec, sub, var, val in entries:
        if sub is None:
            lines.append("[%s]\n" % sec)
        else:
            lines.append('[%s "%s"]\n' % (sec, q_sub(sub)))
        if val is None:
            lines.append("\t%s\n" % var)
        else:
            lines.append("\t%s = %s\n" % (var, q_val(val)))
    return "".join(lines)


def gen_entries(rng, n, cli_safe):
    ents = []
    for _ in range(n):
        r = rng.random()
        if r < 0.55:
            sub = rng.choice(SUBSECTIONS)
            f = rng.choice(FIELDS)
            if cli_safe:
                # keep the hierarchy definable and regexps valid: rule values are well-formed patterns
                f = rng.choice(["include", "exclude", "includeRegexp", "name", "name", "unknownkey"])
                if f == "includeRegexp":
                    v = rng.choice(["refs/(heads|tags)/.*", ".*/main", "refs/misc/.*"])
                elif f == "name":
                    v = rng.choice(["Nice", "näme", "two words", "", "", None])
                    if rng.random() < 0.2:
                        sub = rng.choice(["tags", "branches", "remotes"])
                else:
                    v = rng.choice(["refs/heads", "refs/tags/", "refs/misc", "refs/wip", "refs/remotes/origin", "multi\nline", "",
                                    "with=equals", " lead"])
                ents.append(("refgroup", sub, f, v))
            else:
                v = None if rng.random() < 0.15 else rng.choice(VALUES)
                ents.append(("refgroup", sub, f, v))
        else:
            sec, sub, var = rng.choice(FOREIGN)
            if sec == "refgroup" and cli_safe:
                sec = "refgroupx"
            v = None if rng.random() < 0.35 else rng.choice(VALUES)
            ents.append((sec, sub, var, v))
    return ents


def one_case(arg):
    seed, idx, drvbin, sizerbin, scratch = arg[:5]
    shimdir = arg[5] if len(arg) > 5 else None
    rng = random.Random("C15|%d|%d" % (seed, idx))
    d = os.path.join(scratch, "k%d" % idx)
    os.makedirs(d)
    out = {"idx": idx, "viol": [], "evals": 0, "discard": None, "nontrivial": False, "sample": None, "valueless": 0,
           "scopes": 0, "cli": False}
    try:
        cli_safe = (idx % 3 == 0)
        blob = G.Blob(b"x\n")
        c = G.Commit(G.Tree([G.Entry(G.FILE, b"f", blob)]), [], msg=b"only\n")
        m = G.Model()
        m.bare = False
        for r in REFS:
            m.refs[r] = c
        scopes = {}
        env = {"GIT_CONFIG_NOSYSTEM": "0"}
        # local
        local = gen_entries(rng, rng.randint(1, 8) if not cli_safe else rng.randint(4, 24), cli_safe)
        if cli_safe and rng.random() < 0.5:
            # a display name that is set and later reset by an empty / value-less `name` entry (also for a built-in group)
            sub_n = rng.choice(["a", "Team", "My Group", "tags", "branches", "a.b"])
            local.insert(rng.randint(0, len(local)), ("refgroup", sub_n, "include", "refs/heads"))
            local.insert(0, ("refgroup", sub_n, "name", rng.choice(["First label", "Site-wide", "x"])))
            local.append(("refgroup", sub_n, "name", rng.choice(["", None, "", "Final"])))
        if cli_safe and rng.random() < 0.7:
            sub = rng.choice(SUBSECTIONS)
            seq = [("refgroup", sub, "include", "refs/heads"), ("refgroup", sub, "exclude", "refs/heads/feature"),
                   ("refgroup", sub, "include", "refs/heads/feature/a"), ("refgroup", sub, "exclude", "refs/heads/dev")]
            for e in seq:
                local.insert(rng.randint(0, len(local)), e)
            # keep the relative order of the sequence: re-sort those four into sequence order at their positions
            pos = sorted(i for i, e in enumerate(local) if e in seq)
            for i, e in zip(pos, seq):
                local[i] = e
        if cli_safe and rng.random() < 0.35:
            # two groups whose symbols differ only in the case of letters (subsection names are case-sensitive in git)
            a_, b_ = rng.choice([("Team", "team"), ("My Group", "my group"), ("tags.rel", "tags.REL"), ("a.b", "A.b"), ("x", "X")])
            for e in [("refgroup", a_, "include", rng.choice(["refs/tags", "refs/remotes/origin"])),
                      ("refgroup", b_, "include", rng.choice(["refs/heads", "refs/misc"])),
                      ("refgroup", b_, "name", "lower label")]:
                local.insert(rng.randint(0, len(local)), e)
        if cli_safe and rng.random() < 0.35:
            # several entries of one group whose values are string prefixes of one another without being path prefixes: every
            # one of them counts
            sub = rng.choice(["pfx", "a", "Team", "tags.rel"])
            seqs = rng.choice([[("include", "refs/heads/rel"), ("include", "refs/heads/release")],
                               [("include", "refs/misc/a"), ("include", "refs/misc/ab")],
                               [("include", "refs/heads"), ("exclude", "refs/heads/rel"), ("include", "refs/heads/release")],
                               [("include", "refs/heads/release"), ("include", "refs/heads/rel")]])
            pos = sorted(rng.sample(range(len(local) + len(seqs)), len(seqs)))
            for (f_, v_), at in zip(seqs, pos):
                local.insert(min(at, len(local)), ("refgroup", sub, f_, v_))
        text_local = render(local)
        used = ["local"]
        if rng.random() < 0.4:
            inc = gen_entries(rng, rng.randint(1, 4), cli_safe)
            incp = os.path.join(d, "included.cfg")
            with open(incp, "w", encoding="utf-8", errors="surrogateescape") as f:
                f.write(render(inc))
            text_local += "[include]\n\tpath = %s\n" % incp
            text_local += render(gen_entries(rng, rng.randint(0, 3), cli_safe))
            used.append("include")
        if rng.random() < 0.3:
            text_local += "[extensions]\n\tworktreeConfig = true\n"
            used.append("worktree")
        m.config = text_local
        work = os.path.join(d, "repo")
        gitdir = G.write_model(m, work)
        if "worktree" in used:
            with open(os.path.join(gitdir, "config.worktree"), "w", encoding="utf-8") as f:
                f.write(render(gen_entries(rng, rng.randint(1, 3), cli_safe)))
            # repositoryformatversion 1 is needed for extensions
            cfgp = os.path.join(gitdir, "config")
            t = open(cfgp, encoding="utf-8").read().replace("repositoryformatversion = 0", "repositoryformatversion = 1")
            open(cfgp, "w", encoding="utf-8").write(t)
        if rng.random() < 0.5:
            gp = os.path.join(d, "global.cfg")
            with open(gp, "w", encoding="utf-8") as f:
                f.write(render(gen_entries(rng, rng.randint(1, 5), cli_safe)))
            env["GIT_CONFIG_GLOBAL"] = gp
            used.append("global")
        if rng.random() < 0.4:
            sp = os.path.join(d, "system.cfg")
            with open(sp, "w", encoding="utf-8") as f:
                f.write(render(gen_entries(rng, rng.randint(1, 4), cli_safe)))
            env["GIT_CONFIG_SYSTEM"] = sp
            used.append("system")
        if rng.random() < 0.4:
            cmd = [e for e in gen_entries(rng, rng.randint(1, 3), cli_safe) if e[3] is not None and "\x01" not in e[3]]
            env["GIT_CONFIG_COUNT"] = str(len(cmd))
            for i, (sec, sub, var, val) in enumerate(cmd):
                env["GIT_CONFIG_KEY_%d" % i] = sec + ("." + sub if sub is not None else "") + "." + var
                env["GIT_CONFIG_VALUE_%d" % i] = val
            used.append("command")
        if rng.random() < 0.3:
            # a chatty git: trace output on stderr must never end up in what is read as configuration
            env["GIT_TRACE"] = rng.choice(["1", "2", "true"])
            used.append("GIT_TRACE")
        out["scopes"] = len(used)
        # ground truth: what git itself reports, parsed NUL-first
        genv = dict(env)
        p = G.rgit(gitdir, "config", "--list", "-z", check=False, env=genv)
        if p.returncode != 0:
            out["discard"] = "git cannot read config: %r" % p.stderr[:160]
            return out
        truth = S.parse_config_z(p.stdout)
        if not any(k.startswith(b"refgroup.") for k, _ in truth):
            out["discard"] = "no refgroup entry"
            return out
        out["valueless"] = sum(1 for _, v in truth if v is None)
        syms = []
        for k, v in truth:
            if k.startswith(b"refgroup."):
                rest = k[len(b"refgroup."):]
                if b"." in rest:
                    s = rest.rsplit(b".", 1)[0]
                    if s not in syms:
                        syms.append(s)
        # a prefix ending in '.' has a documented special meaning in GetConfig (component already closed), so the
        # plain "key == P or key starts with P + '.'" oracle does not apply to it: such groups are judged at CLI level
        prefixes = [b"refgroup"] + [b"refgroup." + s for s in syms if not s.endswith(b".")] + \
            [b"refgroupx", b"user", b"alias", b"refgroup.a", b"refgroup.tags"]
        prefixes = [x for x in dict.fromkeys(prefixes) if _utf8(x)]
        denv = dict(env)
        case = {"id": idx, "dir": work, "prefixes": [x.decode() for x in prefixes], "env": denv}
        obs, rc, err = R.drv(drvbin, "config", [case])
        if len(obs) != 1:
            out["viol"].append(("C15/api/driver-died", {"stderr": err[-500:], "rc": rc}))
            return out
        o = obs[0]
        if "panic" in o:
            out["viol"].append(("C15/api/panic", {"panic": o["panic"], "stack": o.get("stack", "")[:600]}))
            return out
        if "open_err" in o:
            out["discard"] = "driver cannot open repo: " + o["open_err"][:100]
            return out
        for pfx in prefixes:
            res = o["configs"].get(pfx.decode())
            out["evals"] += 1
            want = []
            for k, v in truth:
                if k == pfx:
                    want.append((b"", v))
                elif k.startswith(pfx + b"."):
                    want.append((k[len(pfx) + 1:], v))
            if "err" in res:
                out["viol"].append((_sig("api/get-config-error", truth), {"prefix": pfx, "err": res["err"], "truth": _show(truth)}))
                continue
            got = [(base64.b64decode(k), base64.b64decode(v)) for k, v in (res["entries"] or [])]
            if not _same(got, want):
                out["viol"].append((_sig("api/entries-differ", truth),
                                    {"prefix": pfx, "got": got[:6], "want": want[:6], "truth": _show(truth), "scopes": used}))
            if len(want) >= 2:
                out["nontrivial"] = True
        out["sample"] = {"scopes": used, "git_reports": _show(truth)[:5], "prefixes": [x.decode() for x in prefixes[:4]]}
        # CLI stage: groups git reports are visible with the right tallies
        if cli_safe and all(_utf8(k) and (v is None or _utf8(v)) for k, v in truth):
            # value-less entries still announce their group (a group that has nothing but such entries is a rule-less
            # leaf, which the program documents and rejects: not a case for this stage)
            ents = [(k.decode(), "" if v is None else v.decode()) for k, v in truth if k.startswith(b"refgroup.")]
            ents = [(k, v) for k, v in ents if not (v == "" and k.rsplit(".", 1)[-1] in ("include", "exclude", "includeregexp", "excluderegexp")
                                                    and (k.encode(), None) in truth)] 
            forest = S.Forest(ents)
            if forest.undefined():
                return out
            r = R.sizer(sizerbin, work, ["--json", "--no-progress"], env=env, tmpdir=d)
            out["evals"] += 1
            out["cli"] = True
            if r.rc != 0 or r.timed_out:
                out["viol"].append((_sig("cli/run-failed", truth), {"rc": r.rc, "stderr": r.err[-400:], "truth": _show(truth)}))
                return out
            js, probs = P.parse_json(r.out)
            tallies = {}
            for ref in REFS:
                for sym in forest.tally(ref, True):
                    tallies[sym] = tallies.get(sym, 0) + 1
            if js is None or js.get("reference_groups") != tallies:
                out["viol"].append((_sig("cli/tallies-differ", truth),
                                    {"got": (js or {}).get("reference_groups"), "want": tallies, "truth": _show(truth)}))
            # `git config --list` dying after some complete entries: the run may fail, but a run that succeeds must still
            # report the full configuration's tallies
            if shimdir and idx % 2 == 0:
                bounds = []
                acc = 0
                for k, v in truth:
                    acc += len(k) + (1 + len(v) if v is not None else 0) + 1
                    bounds.append(acc)
                for cut in rng.sample(bounds[:-1], min(3, len(bounds) - 1)) if len(bounds) > 1 else []:
                    pdir = os.path.join(d, "cfgcut%d" % cut)
                    plan = R.make_plan(pdir, [{"sig": "config --list", "ord": rng.choice([0, 0, 1]), "mode": "fault",
                                               "term": rng.choice(["exit:128", "sig:KILL", "exit:1"]), "after_bytes": cut}])
                    rc_ = R.sizer(sizerbin, work, ["--json", "--no-progress"], env=env, shimdir=shimdir, plan=plan, tmpdir=d)
                    out["evals"] += 1
                    if rc_.rc == 0:
                        jc, _ = P.parse_json(rc_.out)
                        if jc is None or jc.get("reference_groups") != tallies:
                            out["viol"].append((_sig("cli/tallies-differ-after-config-listing-was-cut", truth),
                                                {"cut": cut, "got": (jc or {}).get("reference_groups"), "want": tallies}))
            # display names (only the table shows them): last `name` entry git reports for the group, the default name
            # (last component of the symbol) when that entry is empty or has no value
            names_truth = {}
            for k, v in truth:
                if k.startswith(b"refgroup.") and k.endswith(b".name") and _utf8(k) and (v is None or _utf8(v)):
                    names_truth[k.decode()[len("refgroup."):-len(".name")]] = "" if v is None else v.decode()
            rt = R.sizer(sizerbin, work, ["-v", "--no-progress"], env=env, tmpdir=d)
            out["evals"] += 1
            if rt.rc == 0 and js is not None:
                tab = P.parse_table(rt.out, lenient=True)
                rows = [(r_.name.decode("utf-8", "replace"), r_.value.decode("ascii", "replace")) for p_, r_ in P.rows_with_paths(tab)
                        if p_[:2] == ("Overall repository size", "References")][1:]
                want_rows = []
                for sym, disp, depth in forest.display_order():
                    if sym in tallies:
                        if sym in names_truth:
                            disp = names_truth[sym] if names_truth[sym] != "" else sym.rsplit(".", 1)[-1]
                        want_rows.append((disp, str(tallies[sym])))
                clean = all("\n" not in a and a == a.strip() and a != "" for a, _ in want_rows)
                if clean and sorted(rows) != sorted(want_rows):
                    out["viol"].append((_sig("cli/table-display-names-differ", truth), {"got": rows[:8], "want": want_rows[:8],
                                                                                         "truth": _show(truth)}))
            # every group is usable as @G
            for sym in list(forest.groups)[:3]:
                r = R.sizer(sizerbin, work, ["--json", "--no-progress", "--show-refs", "--include", "@" + sym], env=env, tmpdir=d)
                out["evals"] += 1
                if r.rc != 0:
                    out["viol"].append((_sig("cli/group-not-usable", truth), {"sym": sym, "stderr": r.err[-300:]}))
                    continue
                _, marks, _ = P.parse_stderr(r.err)
                got = {n.decode(): plus for plus, n in marks}
                want = {ref: forest.member(sym, ref) for ref in REFS}
                if got != want:
                    out["viol"].append((_sig("cli/group-members-differ", truth), {"sym": sym, "got": got, "want": want}))
    finally:
        shutil.rmtree(d, ignore_errors=True)
    return out


def _utf8(b):
    try:
        b.decode("utf-8")
        return b"\0" not in b
    except UnicodeDecodeError:
        return False


def _show(truth):
    return [(k.decode("utf-8", "replace"), None if v is None else v.decode("utf-8", "replace")[:60]) for k, v in truth[:12]]


def _sig(kind, truth):
    """Discriminating fact: does git report any value-less key in this configuration?"""
    vl = any(v is None for _, v in truth)
    trailing = any(k.startswith(b"refgroup.") and b".." in k for k, _ in truth)
    return "C15/%s/%s%s" % (kind, "config-has-valueless-key" if vl else "all-keys-have-values",
                            "/refgroup-subsection-ending-in-dot" if trailing else "")


def _same(got, want):
    """Exact order/key/value equality; for value-less keys either an empty value or omission is accepted."""
    i = 0
    for k, v in want:
        if v is None:
            if i < len(got) and got[i] == (k, b""):
                i += 1
            continue
        if i >= len(got) or got[i] != (k, v):
            return False
        i += 1
    return i == len(got)


def many_groups_stage(chk, b, tier):
    """Ten groups whose rules are expensive to set up (regexps that take milliseconds to compile) next to cheap ones: whatever
    order and overlap the per-group configuration reads have, every run shows every group with its own name and tally."""
    import random as _r
    rng = _r.Random("C15m|%d" % R.SEED)
    d = os.path.join(b.scratchdir(), "manygroups")
    shutil.rmtree(d, ignore_errors=True)
    os.makedirs(d)
    slow = "[a-z]{0,600}[0-9]{0,600}[a-z]{0,400}"
    cfg = []
    want = {}
    for k in range(10):
        ns = ["heads", "tags", "misc", "wip", "remotes"][k % 5]
        cfg.append('[refgroup "g%d"]\n\tname = Group %d\n\tincludeRegexp = refs/%s/%s\n' % (k, k, ns, slow if k % 2 == 0 else ".*"))
    cfg.append('[refgroup "tags"]\n\tname = Labels\n\texcludeRegexp = refs/tags/release/%s\n' % slow)
    cfg.append('[refgroup "branches"]\n\tname = Lines\n')
    blob = G.Blob(b"x\n")
    c = G.Commit(G.Tree([G.Entry(G.FILE, b"f", blob)]), [], msg=b"only\n")
    m = G.Model()
    m.config = "".join(cfg)
    for r_ in REFS:
        m.refs[r_] = c
    gitdir = G.write_model(m, os.path.join(d, "repo"))
    p = G.rgit(gitdir, "config", "--list", "-z", check=False)
    ents = [(k.decode(), v.decode()) for k, v in S.parse_config_z(p.stdout) if k.startswith(b"refgroup.") and v is not None]
    forest = S.Forest(ents)
    tallies = {}
    for ref in REFS:
        for sym in forest.tally(ref, True):
            tallies[sym] = tallies.get(sym, 0) + 1
    nrun = 14 if tier == "quick" else 120
    bad = 0
    for j in range(nrun):
        env = {"GOMAXPROCS": ["16", "1", "2", "4", "8"][j % 5]}
        r = R.sizer(b.sizer(), gitdir, ["--json", "--no-progress"] if j % 2 else ["-v", "--no-progress", "--names=none"], env=env, tmpdir=d)
        chk.count()
        if r.rc != 0 or r.timed_out:
            bad += 1
            chk.violation("C15/cli/many-groups/run-failed", {"rc": r.rc, "stderr": r.err[-300:].decode("utf-8", "replace"), "run": j})
            continue
        if j % 2:
            js, _ = P.parse_json(r.out)
            if js is None or js.get("reference_groups") != tallies:
                bad += 1
                chk.violation("C15/cli/many-groups/tallies-differ", {"run": j, "got": (js or {}).get("reference_groups"), "want": tallies})
        else:
            tab = P.parse_table(r.out, lenient=True)
            rows = {r_.name.decode("utf-8", "replace") for p_, r_ in P.rows_with_paths(tab) if p_[:2] == ("Overall repository size", "References")}
            missing = [n for n in ["Group %d" % k for k in range(10) if ("g%d" % k) in tallies] + ["Labels", "Lines"] if n not in rows]
            if missing:
                bad += 1
                chk.violation("C15/cli/many-groups/display-names-missing", {"run": j, "missing": missing[:5]})
    chk.cov["many_groups_stage"] = {"groups": 12, "runs": nrun, "runs_deviating": bad}
    chk.nontrivial("many-groups")
    shutil.rmtree(d, ignore_errors=True)


def run(chk, b, tier):
    n = 240 if tier == "quick" else 30000
    drv = b.apidrv()
    sz = b.sizer()
    scratch = b.scratchdir()
    shimdir = b.shimdir()
    many_groups_stage(chk, b, tier)
    jobs = [(R.SEED, i, drv, sz, scratch, shimdir) for i in range(n)]
    res = R.pmap(one_case, jobs, chunksize=4, chk=chk)
    for r in res:
        chk.count(r["evals"])
        if r["discard"]:
            chk.bump("generator_discards")
            continue
        for sig, det in r["viol"]:
            chk.violation(sig, det)
        if r["nontrivial"]:
            chk.nontrivial(r["idx"])
        if r["valueless"]:
            chk.bump("configs_with_valueless_keys")
        if r["scopes"] > 1:
            chk.bump("configs_spanning_several_scopes")
        if r["cli"]:
            chk.bump("cli_stage_runs")
        if r["sample"]:
            chk.sample(r["sample"], limit=4)
    from ._camp import generic_fault_sweep
    generic_fault_sweep(chk, b, "C15", [['--json', '--no-progress'], ['-v', '--no-progress', '--names=none']])
    chk.cov["rule"] = ("generated configuration files in system/global/local/worktree/included/command scopes; refgroup entries "
                       "interleaved with foreign entries (value-less keys, empty / multi-line / '=' / quote / control-char "
                       "values, sections named refgroupx, subsections with dots/capitals/spaces). API: Repository.GetConfig("
                       "prefix) for 'refgroup', every 'refgroup.<symbol>' and foreign prefixes vs a NUL-first parse of `git "
                       "config --list -z` run in the same environment (order, key, value bytes). CLI (every third case): "
                       "reference_groups and @group membership vs the tally model fed with git's listing. Non-trivial: a "
                       "prefix selects >=2 entries; distinct = distinct configurations.")
    if chk.cov.get("generator_discards", 0) > n // 2:
        chk.inconc("too many generator discards")
    chk.assumptions += ["git config --list -z is the ground truth of what git reports",
                        "for value-less refgroup keys either an empty value or omission is accepted"]
