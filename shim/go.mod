module verifshim

go 1.17
