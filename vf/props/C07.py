"""C07 Reference tallies are exact for every refgroup hierarchy."""
import os
import random
import shutil

from .. import gen as G
from .. import parse_out as P
from .. import run as R
from .. import select as S

LEVEL = "exploration"

REFPOOL = [
    "refs/heads/main", "refs/heads/dev", "refs/heads/foo", "refs/heads/foobar", "refs/heads/feature/a",
    "refs/heads/feature/b/c", "refs/heads/rel/1.0", "refs/heads/rel/2.0", "refs/tags/v1", "refs/tags/v2",
    "refs/tags/release/1", "refs/tags/release/2", "refs/tags/tmp/x", "refs/remotes/origin/main",
    "refs/remotes/origin/dev", "refs/remotes/up/main", "refs/pull/1/head", "refs/pull/2/merge",
    "refs/changes/12/3412/1", "refs/changes/1/2/3", "refs/notes/commits", "refs/stash", "refs/foo", "refs/foo/bar",
    "refs/misc/a", "refs/misc/b", "refs/misc/deep/x/y/z", "refs/wip/1", "refs/wip/2", "refs/env/prod", "refs/env/staging",
]

COMPONENTS = ["a", "b", "c", "grp", "Team", "my group", "x-y", "x_y", "été", "日本", "UPPER", "q\"uote", "back\\slash",
              "1", "42", "s p a c e", "tab\there", "[br]", "#hash", "semi;colon", "eq=ual", "at@"]


def cfg_quote_subsection(s):
    return s.replace("\\", "\\\\").replace('"', '\\"')


def cfg_quote_value(v):
    out = v.replace("\\", "\\\\").replace('"', '\\"').replace("\n", "\\n").replace("\t", "\\t")
    return '"' + out + '"'


def render_config(entries):
    """entries: list of (symbol, field, value) -> config text"""
    lines = []
    for sym, field, val in entries:
        lines.append('[refgroup "%s"]\n\t%s = %s\n' % (cfg_quote_subsection(sym), field, cfg_quote_value(val)))
    return "".join(lines)


def gen_pattern(rng, refs):
    r = rng.random()
    ref = rng.choice(refs)
    parts = ref.split("/")
    if r < 0.5:
        k = rng.randint(2, len(parts))
        return ("prefix", "/".join(parts[:k]) + ("/" if rng.random() < 0.2 and k < len(parts) else ""))
    if r < 0.6:
        return ("prefix", ref[:rng.randint(6, len(ref))])
    if r < 0.8:
        k = rng.randint(2, len(parts))
        return ("regexp", "/".join(parts[:k]) + rng.choice(["/.*", ".*", "/[^/]+", "(/.*)?"]))
    if r < 0.9:
        return ("regexp", rng.choice(["refs/(heads|tags)/.*", ".*/main", "refs/[a-z]+/[a-z0-9.]+", ".*\\d.*", "refs/.*/.*/.*",
                                      "refs/heads/.*|refs/wip/.*"]))
    # patterns whose leftmost-first match is shorter than the longest one: an alternative that is a proper prefix of a later
    # alternative, lazy quantifiers, optional tails (whether a name satisfies the rule is a question about the whole name)
    return ("regexp", rng.choice(["refs/heads/(foo|foobar)", "refs/heads/foo|refs/heads/foobar", "refs/tags/v|refs/tags/v\\d",
                                  "refs/heads/(rel|rel/\\d\\.\\d)", "refs/misc/.*?", "refs/tags/v\\d??", "refs/heads/feature/.+?",
                                  "refs/(foo|foo/bar)", "refs/wip/\\d*?", "refs/heads/(d|de|dev)", "refs/changes/1|refs/changes/1/2/3",
                                  "refs/remotes/(origin|origin/main)"]))


def gen_forest(rng, refs, deep=False):
    """Returns list of (symbol, field, value) in file order."""
    entries = []
    symbols = []
    ntop = rng.randint(1, 4)

    def comp():
        return rng.choice(COMPONENTS)

    def add_group(sym, force_rules):
        symbols.append(sym)
        has_rules = force_rules or rng.random() < 0.8
        if rng.random() < 0.5:
            entries.append((sym, "name", rng.choice(["Nice Name", "näme", sym.upper(), "x" * rng.randint(1, 40), "A  B", "[x]",
                                                     "n:" + sym])))
        if has_rules:
            for _ in range(rng.randint(1, 3)):
                kind, pat = gen_pattern(rng, refs)
                pol = rng.choice(["include", "include", "exclude"])
                entries.append((sym, pol + ("Regexp" if kind == "regexp" else ""), pat))
        return has_rules

    def build(prefix, depth, maxdepth):
        used = set()
        for _ in range(rng.randint(1, 3)):
            c = comp()
            if c in used or c in ("other", "ignored"):
                continue
            used.add(c)
            sym = (prefix + "." if prefix else "") + c
            if sym in symbols or sym in ("other", "ignored"):
                continue
            will_have_children = depth < maxdepth and rng.random() < (0.9 if deep else 0.45)
            implicit = will_have_children and rng.random() < 0.3
            if implicit:
                # only descendants are configured; the parent is created implicitly
                before = len(symbols)
                build(sym, depth + 1, maxdepth)
                if len(symbols) == before:
                    add_group(sym, True)
            else:
                add_group(sym, force_rules=not will_have_children)
                if will_have_children:
                    before = len(symbols)
                    build(sym, depth + 1, maxdepth)
                    if len(symbols) == before and not any(e[0] == sym and e[1] != "name" for e in entries):
                        kind, pat = gen_pattern(rng, refs)
                        entries.append((sym, "include" + ("Regexp" if kind == "regexp" else ""), pat))

    maxdepth = rng.choice([1, 2, 3, 4]) if not deep else rng.choice([8, 12, 13, 14, 16, 20])
    if deep:
        # one long chain plus a little noise
        sym = ""
        for d in range(maxdepth):
            sym = (sym + "." if sym else "") + rng.choice(["a", "b", "c", "d"])
            if d == maxdepth - 1 or rng.random() < 0.6:
                add_group(sym, force_rules=(d == maxdepth - 1))
    else:
        build("", 0, maxdepth)
    # order-sensitive rule sequences (last matching rule wins inside a group)
    if symbols and rng.random() < 0.6:
        for sym in rng.sample(symbols, min(len(symbols), rng.randint(1, 3))):
            ref = rng.choice(refs)
            parts = ref.split("/")
            if len(parts) >= 3:
                seq = [("include", "/".join(parts[:2])), ("exclude", "/".join(parts[:3])), ("include", ref)]
                if rng.random() < 0.5:
                    seq = [("exclude", "/".join(parts[:3])), ("include", "/".join(parts[:2]))]
                for pol, pat in seq:
                    entries.append((sym, pol, pat))
    # split definitions: the entries of one group need not be adjacent in what git reports (same section twice in a file,
    # several scopes): merge the per-group lists in a random interleaving that keeps each group's own order
    if rng.random() < 0.5 and len(entries) > 3:
        per = {}
        order = []
        for e in entries:
            if e[0] not in per:
                per[e[0]] = []
                order.append(e[0])
            per[e[0]].append(e)
        merged = []
        pools = [per[s_] for s_ in order]
        while any(pools):
            nonempty = [pl for pl in pools if pl]
            # keep parents defined before their children so that implicit/explicit creation order stays what it was
            pl = rng.choice(nonempty)
            merged.append(pl.pop(0))
        entries = merged
    # augment built-ins sometimes
    if rng.random() < 0.3:
        entries.append((rng.choice(["tags", "branches"]), "exclude", rng.choice(["refs/tags/tmp", "refs/heads/feature"])))
    if rng.random() < 0.3:
        entries.append(("tags.releases", "include", "refs/tags/release"))
    if rng.random() < 0.2:
        entries.append(("branches.rel", "includeRegexp", "refs/heads/rel/.*"))
    return entries


def one_case(arg):
    seed, idx, binary, scratch, deep = arg[:5]
    shimdir = arg[5] if len(arg) > 5 else None
    rng = random.Random("C07|%d|%d" % (seed, idx))
    d = os.path.join(scratch, "f%d" % idx)
    os.makedirs(d)
    out = {"idx": idx, "viol": [], "runs": 0, "inconc": [], "nontrivial": 0, "sample": None, "maxdepth": 0}
    try:
        refs = rng.sample(REFPOOL, rng.randint(3, len(REFPOOL)))
        if not G.refs_compatible(refs):
            refs = [r for r in refs if r not in ("refs/foo",)]
        entries = gen_forest(rng, refs, deep=deep)
        blob = G.Blob(b"x\n")
        c = G.Commit(G.Tree([G.Entry(G.FILE, b"f", blob)]), [], msg=b"only\n")
        m = G.Model()
        m.config = render_config(entries)
        for r in refs:
            m.refs[r] = c
        gitdir = G.write_model(m, os.path.join(d, "repo"), packed_refs=True)
        # self-check: git reads the config as intended
        p = G.rgit(gitdir, "config", "--list", "-z", check=False)
        if p.returncode != 0:
            out["inconc"].append("generator: git cannot read the generated config: %r" % p.stderr[:200])
            return out
        got = [(k.decode(), v.decode()) for k, v in S.parse_config_z(p.stdout) if k.startswith(b"refgroup.") and v is not None]
        want = [("refgroup.%s.%s" % (s, f.lower()), v) for s, f, v in entries]
        if got != want:
            out["inconc"].append("generator: config read-back differs: %r vs %r" % (got[:3], want[:3]))
            return out
        forest = S.Forest(got)
        undefined = forest.undefined()
        if undefined:
            out["inconc"].append("generator produced an undefined leaf group %r" % undefined)
            return out
        out["maxdepth"] = max(s.count(".") + 1 for s in forest.groups)
        # selections
        sels = [[], rng.choice([["--branches"], ["--no-tags"], ["--include", "refs/heads", "--exclude", "refs/heads/dev"],
                                ["--include", "/refs/(misc|wip)/.*/"], ["--exclude", "refs/remotes"]])]
        gsyms = [s for s in forest.groups if "\n" not in s]
        if gsyms:
            s1 = rng.choice(gsyms)
            sels.append([rng.choice(["--include", "--exclude"]), "@" + s1])
        # explicit ROOT arguments naming objects that references name too: ROOTs are not references, so the count and the
        # tallies are what they are without them
        rootsets = [[]] * len(sels)
        for sel in list(sels):
            sels.append(sel)
            rootsets.append(rng.sample([refs[0], c.oid, refs[-1] + "~0", c.oid[:12], refs[len(refs) // 2] + "^{commit}"], rng.randint(1, 3)))
        for sel, xroots in zip(sels, rootsets):
            base = ["--no-progress", "--show-refs"] + sel + xroots
            r1 = R.sizer(binary, gitdir, ["--json"] + base, tmpdir=d)
            out["runs"] += 1
            ctx = {"sel": sel, "roots": xroots, "entries": entries[:40], "nrefs": len(refs), "repo": [seed, idx]}
            if r1.rc != 0 or r1.timed_out:
                kind = "panic" if b"panic" in r1.err else "error"
                out["viol"].append(("C07/report-failed/json-v1/%s/depth%s" % (kind, "<=13" if out["maxdepth"] <= 13 else ">13"),
                                    dict(ctx, rc=r1.rc, stderr=r1.err[-600:])))
                continue
            js, probs = P.parse_json(r1.out)
            if js is None:
                out["viol"].append(("C07/bad-json", dict(ctx, problems=probs)))
                continue
            _, marks, _ = P.parse_stderr(r1.err)
            marked = {n.decode("utf-8", "replace"): plus for plus, n in marks}
            if set(marked) != set(refs):
                out["viol"].append(("C07/show-refs-set", dict(ctx, got=sorted(marked))))
                continue
            if js.get("reference_count") != len(refs):
                out["viol"].append(("C07/reference_count", dict(ctx, got=js.get("reference_count"), want=len(refs))))
            tallies = {}
            for ref in refs:
                for sym in forest.tally(ref, marked[ref]):
                    tallies[sym] = tallies.get(sym, 0) + 1
            gotg = js.get("reference_groups")
            if gotg != tallies:
                diff = {k: (tallies.get(k), (gotg or {}).get(k)) for k in set(tallies) | set(gotg or {})
                        if tallies.get(k) != (gotg or {}).get(k)}
                out["viol"].append(("C07/tally-mismatch/json-v1", dict(ctx, diff_want_got=dict(list(diff.items())[:6]))))
            if len([k for k in tallies if k not in ("", "ignored")]) >= 2:
                out["nontrivial"] += 1
            # v2
            r2 = R.sizer(binary, gitdir, ["--json", "--json-version=2"] + base, tmpdir=d)
            out["runs"] += 1
            if r2.rc != 0 or r2.timed_out:
                out["viol"].append(("C07/report-failed/json-v2", dict(ctx, rc=r2.rc, stderr=r2.err[-600:])))
            else:
                j2, probs = P.parse_json(r2.out)
                if j2 is None:
                    out["viol"].append(("C07/bad-json-v2", dict(ctx, problems=probs)))
                else:
                    got2 = {k[len("refgroup."):]: v.get("value") for k, v in j2.items() if k.startswith("refgroup.")}
                    want2 = {k: v for k, v in tallies.items() if k != ""}
                    if got2 != want2:
                        out["viol"].append(("C07/tally-mismatch/json-v2", dict(ctx, got=dict(list(got2.items())[:8]),
                                                                               want=dict(list(want2.items())[:8]))))
                    if j2.get("referenceCount", {}).get("value") != len(refs):
                        out["viol"].append(("C07/reference_count/v2", dict(ctx)))
            # table
            r3 = R.sizer(binary, gitdir, ["-v"] + base, tmpdir=d)
            out["runs"] += 1
            if r3.rc != 0 or r3.timed_out:
                kind = "panic" if b"panic" in r3.err else "error"
                out["viol"].append(("C07/report-failed/table/%s/%s" % (kind, "nesting>13" if out["maxdepth"] > 13 else "nesting<=13"),
                                    dict(ctx, rc=r3.rc, maxdepth=out["maxdepth"], stderr=r3.err[-500:])))
            else:
                tab = P.parse_table(r3.out)
                if tab.errors:
                    out["viol"].append(("C07/table-unparsable", dict(ctx, errors=tab.errors[:3])))
                else:
                    rows = [(p, r) for p, r in P.rows_with_paths(tab) if p[:2] == ("Overall repository size", "References")]
                    if not rows or rows[0][1].name != b"Count" or rows[0][1].value != str(len(refs)).encode():
                        out["viol"].append(("C07/table-reference-count", dict(ctx, rows=[repr(r) for _, r in rows[:2]])))
                    else:
                        base_indent = rows[0][1].indent
                        gotrows = [(r.name.decode("utf-8", "replace"), r.value.decode(), (r.indent - base_indent) // 2)
                                   for _, r in rows[1:]]
                        wantrows = [(nm, str(tallies[sym]), depth + 1) for sym, nm, depth in forest.display_order()
                                    if sym in tallies]
                        if sorted(gotrows) != sorted(wantrows):
                            out["viol"].append(("C07/table-rows", dict(ctx, got=gotrows[:8], want=wantrows[:8])))
            if out["sample"] is None:
                out["sample"] = {"config_entries": entries[:6], "sel": sel, "tallies": dict(list(tallies.items())[:8])}
            if idx % 5 == 0 and shimdir:
                class _C:      # collect into the worker's result
                    def count(self, n=1): out["runs"] += n
                    def bump(self, *a): pass
                    def violation(self, sig, det): out["viol"].append((sig, det))
                R.fault_probe(_C(), "C07", binary, gitdir, ["--json"] + base, rng, shimdir, d, n=2)
    finally:
        shutil.rmtree(d, ignore_errors=True)
    return out


def many_refs_case(chk, sz, scratch, nrefs, prefix="C07"):
    """Hundreds of thousands of references that are counted but not walked, on a tiny history: the reference count and
    the Ignored tally must be exact in all three formats of the same repository."""
    from .C11 import check_formats
    d = os.path.join(scratch, "manyrefs")
    blob = G.Blob(b"x\n")
    c = G.Commit(G.Tree([G.Entry(G.FILE, b"f", blob)]), [], msg=b"c\n")
    m = G.Model()
    for i in range(nrefs):
        m.refs["refs/heads/b%06d" % i] = c
    m.refs["refs/tags/t"] = c
    m.refs["refs/remotes/o/m"] = c
    gitdir = G.write_model(m, os.path.join(d, "repo"), packed_refs=True)
    want_groups = {"": 2, "tags": 1, "remotes": 1, "ignored": nrefs}
    for rep in range(2):
        sel = ["--tags", "--remotes"]
        r1 = R.sizer(sz, gitdir, ["--json", "--no-progress", "--names=" + ["none", "full"][rep]] + sel, tmpdir=d, timeout=600)
        r2 = R.sizer(sz, gitdir, ["--json", "--json-version=2", "--no-progress"] + sel, tmpdir=d, timeout=600)
        r3 = R.sizer(sz, gitdir, ["-v", "--no-progress"] + sel, tmpdir=d, timeout=600)
        chk.count(3)
        if r1.rc or r2.rc or r3.rc:
            chk.violation(prefix + "/many-refs/run-failed", {"stderr": (r1.err + r2.err + r3.err)[-400:]})
            continue
        j1, _ = P.parse_json(r1.out)
        j2, _ = P.parse_json(r2.out)
        if not j1 or j1.get("reference_count") != nrefs + 2 or j1.get("reference_groups") != want_groups:
            chk.violation(prefix + "/many-refs/json-v1", {"reference_count": (j1 or {}).get("reference_count"), "want": nrefs + 2,
                                                     "groups": (j1 or {}).get("reference_groups")})
        if not j2 or j2.get("referenceCount", {}).get("value") != nrefs + 2 or j2.get("refgroup.ignored", {}).get("value") != nrefs:
            chk.violation(prefix + "/many-refs/json-v2", {"referenceCount": (j2 or {}).get("referenceCount")})
        if j1 and j2:
            gn = {"tags": "Tags", "remotes": "Remote-tracking refs", "ignored": "Ignored"}
            j1x = dict(j1, reference_count=nrefs + 2, reference_groups=want_groups)
            for clause, det in check_formats(j1x, dict(j2, referenceCount=dict(j2.get("referenceCount", {}), value=nrefs + 2)),
                                             [("0", r3.out)], "many", group_names=gn):
                chk.violation(prefix + "/many-refs/table/" + clause, det)
        chk.nontrivial(("manyrefs", rep))
    chk.cov["many_refs_case_references"] = nrefs + 2
    shutil.rmtree(d, ignore_errors=True)


def many_walked_refs_case(chk, sz, scratch, nrefs, prefix="C07"):
    """Thousands of references that are all walked, each the only name of its own commit, spread unevenly over the built-in
    groups; some runs list the references (--show-refs) to a reader of stderr that takes them slowly. All three formats of
    every run must show the same, exact counts."""
    from .C11 import check_formats
    d = os.path.join(scratch, "manywalked")
    t = G.Tree([G.Entry(G.FILE, b"f", G.Blob(b"x\n"))])
    m = G.Model()
    kinds = ["heads", "heads", "heads", "tags", "remotes/o", "misc", "heads", "tags"]
    tallies = {}
    for i in range(nrefs):
        k = kinds[i % len(kinds)]
        m.refs["refs/%s/r%06d" % (k, i)] = G.Commit(t, [], cts=1300000000 + i, msg=b"c%d\n" % i)
        g = {"heads": "branches", "tags": "tags", "remotes/o": "remotes", "misc": "other"}[k]
        tallies[g] = tallies.get(g, 0) + 1
    gitdir = G.write_model(m, os.path.join(d, "repo"), packed_refs=True)
    want_groups = dict(tallies)
    want_groups[""] = nrefs
    runs = [(["--json", "--no-progress"], None), (["--json", "--no-progress", "--show-refs"], (4096, 1, 400)),
            (["--json", "--json-version=2", "--no-progress", "--show-refs"], (1024, 0.5)),
            (["-v", "--no-progress", "--show-refs"], (8192, 3, 700)), (["-v", "--no-progress"], None)]
    outs = []
    for k, (argv, slow) in enumerate(runs):
        r = R.sizer(sz, gitdir, argv, env={"GOMAXPROCS": ["", "1", "2", "4", "16"][k % 5]} if k % 5 else None, tmpdir=d, timeout=600,
                    slow_stderr=slow)
        chk.count()
        if r.rc != 0 or r.timed_out:
            chk.violation(prefix + "/many-walked-refs/run-failed", {"argv": argv, "stderr": r.err[-300:].decode("utf-8", "replace")})
            outs.append(None)
            continue
        outs.append(r.out)
        if "--json" in argv:
            j, _ = P.parse_json(r.out)
            if "--json-version=2" in argv:
                got = {"count": (j or {}).get("referenceCount", {}).get("value"), "commits": (j or {}).get("uniqueCommitCount", {}).get("value"),
                       "groups": {g: (j or {}).get("refgroup." + g, {}).get("value") for g in tallies}}
            else:
                got = {"count": (j or {}).get("reference_count"), "commits": (j or {}).get("unique_commit_count"),
                       "groups": {g: ((j or {}).get("reference_groups") or {}).get(g) for g in tallies}}
            want = {"count": nrefs, "commits": nrefs, "groups": tallies}
            if got != want:
                chk.violation(prefix + "/many-walked-refs/json-counts", {"argv": argv, "slow_stderr_reader": slow, "got": got, "want": want})
        chk.nontrivial(("manywalked", k))
    if outs[0] and outs[2] and outs[3] and outs[4]:
        j1, _ = P.parse_json(outs[0])
        j2, _ = P.parse_json(outs[2])
        gn = {"branches": "Branches", "tags": "Tags", "remotes": "Remote-tracking refs", "other": "Other"}
        for tab, label in ((outs[3], "slow-stderr"), (outs[4], "plain")):
            for clause, det in check_formats(j1, j2, [("0", tab)], "manywalked-" + label, group_names=gn):
                chk.violation(prefix + "/many-walked-refs/table/" + clause, det)
        if outs[3] != outs[4]:
            chk.violation(prefix + "/many-walked-refs/table-differs-between-runs", {"first_diff": R._first_diff_lines(outs[4], outs[3])})
    chk.cov["many_walked_refs_case_references"] = nrefs
    shutil.rmtree(d, ignore_errors=True)


def run(chk, b, tier):
    n = 150 if tier == "quick" else 8000
    sz = b.sizer()
    scratch = b.scratchdir()
    shimdir = b.shimdir()
    jobs = [(R.SEED, i, sz, scratch, (i % 5 == 4), shimdir) for i in range(n)]
    res = R.pmap(one_case, jobs, chunksize=2, chk=chk)
    depths = {}
    for r in res:
        chk.count(r["runs"])
        for m in r["inconc"]:
            chk.bump("generator_discards")
            chk.cov.setdefault("discard_samples", [])
            if len(chk.cov["discard_samples"]) < 3:
                chk.cov["discard_samples"].append(m[:200])
        for sig, det in r["viol"]:
            chk.violation(sig, det)
        if r["nontrivial"]:
            chk.nontrivial(r["idx"])
        if r["sample"]:
            chk.sample(r["sample"], limit=4)
        if r["maxdepth"]:
            depths[r["maxdepth"]] = depths.get(r["maxdepth"], 0) + 1
    many_refs_case(chk, sz, scratch, 150000 if tier == "quick" else 400000)
    many_walked_refs_case(chk, sz, scratch, 3000 if tier == "quick" else 12000)
    chk.cov["hierarchies_by_max_nesting_depth"] = {str(k): v for k, v in sorted(depths.items())}
    from ._camp import generic_fault_sweep
    generic_fault_sweep(chk, b, "C07", [['--json', '--json-version=2', '--no-progress'], ['-v', '--no-progress', '--include', '@mine.b']])
    chk.cov["rule"] = ("generated refgroup forests in the repository's gitconfig (nesting 1..20, implicit parents, rule-less "
                       "unions, exclude-only groups, augmented built-ins, symbols with spaces/capitals/quotes/UTF-8, display "
                       "names) x reference sets x selections (incl. @group) x {JSON v1, JSON v2, -v table}; tallies compared "
                       "with the recursive tally model; a failing run is a violation. Non-trivial: >=2 distinct groups "
                       "(besides the top level / Ignored) receive references; distinct = distinct hierarchies.")
    if chk.cov.get("generator_discards", 0) > n // 3:
        chk.inconc("too many generator discards")
    chk.assumptions += ["'definable' = every leaf group has at least one include/exclude rule (the program documents and rejects "
                        "rule-less leaves); symbols colliding with the synthetic buckets other/ignored are not generated",
                        "git config --list -z (parsed NUL-first) is the ground truth of what git reports"]
