#!/bin/bash
# Runs every selftest/mutants/*.patch: baseline must stay green (else the mutant is not admissible), then the quick check of
# the target property (file <name>.target, default: derived from the name) must report a violation.
cd /verif
printf "%-34s %-5s %-10s %s\n" mutant prop baseline check
for p in selftest/mutants/*.patch; do
  n=$(basename $p .patch)
  t=$(cat selftest/mutants/$n.target 2>/dev/null || echo $n | cut -c1-3 | tr a-z A-Z)
  b=$(selftest/verify_mutant.sh $p 2>&1 | tail -1)
  case "$b" in *"passing now: 53"*) bs=green;; *) bs="RED";; esac
  r=$(selftest/run_mutant.sh $p $t 2>&1 | tail -1)
  sig=$(selftest/run_mutant.sh $p $t 2>&1 | grep -m1 signature | cut -c1-80)
  printf "%-34s %-5s %-10s %s %s\n" $n $t $bs "$r" "$sig"
done
