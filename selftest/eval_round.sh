#!/bin/bash
# usage: selftest/eval_round.sh <worktree-prefix e.g. /tmp/sd-> <Cnn> [Cnn...]
# For each property: baseline status of <prefix>Cnn/MUTANT/patch.diff and the verdict of the property's quick check.
pre=$1; shift
for p in "$@"; do
  pf=${pre}${p}/MUTANT/patch.diff
  [ -f "$pf" ] || { echo "$p: no patch"; continue; }
  b=$(/verif/selftest/verify_mutant.sh "$pf" 2>&1 | tail -1)
  out=$(/verif/selftest/run_mutant.sh "$pf" "$p" 2>&1)
  sig=$(echo "$out" | grep -m2 signature | tr '\n' ' ' | cut -c1-150)
  echo "$p | ${b} | $(echo "$out" | tail -1) | $sig"
done
