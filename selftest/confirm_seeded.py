#!/usr/bin/env python3
"""Confirms a seeded change the way DESIGN section 10 describes and writes meta.json.
usage: confirm_seeded.py <seeded-dir> <property> <demo command (relative to the worktree, MUTANT/ = seeded dir)> [--checks C01,C02]
Steps (scratch worktree of /repo HEAD under /tmp, removed afterwards):
  1. patch applies, builds, 53 baseline tests green;
  2. demonstration fails with the patch and passes without it;
  3. the quick check(s) report a violation with the patch (and are silent without: ensured elsewhere)."""
import json, os, shutil, subprocess, sys, tempfile
sd, prop, demo = sys.argv[1], sys.argv[2], sys.argv[3]
checks = [prop]
if "--checks" in sys.argv:
    checks = sys.argv[sys.argv.index("--checks") + 1].split(",")
sd = os.path.abspath(sd)
env = dict(os.environ, GOFLAGS="-mod=mod", GOPROXY="off", GOSUMDB="off", GOTOOLCHAIN="local")
wt = tempfile.mkdtemp(prefix="cs-", dir="/tmp"); os.rmdir(wt)
subprocess.run(["git", "-C", "/repo", "worktree", "add", "-q", "--detach", wt, "HEAD"], check=True)
meta = {"property": prop, "repo_head": subprocess.run(["git", "-C", "/repo", "rev-parse", "--short", "HEAD"], capture_output=True, text=True).stdout.strip()}
try:
    shutil.copytree(sd, os.path.join(wt, "MUTANT"))
    def run(cmd, **kw):
        return subprocess.run(cmd, cwd=wt, env=env, shell=isinstance(cmd, str), stdout=subprocess.PIPE, stderr=subprocess.STDOUT, **kw)
    r = run(["git", "apply", "MUTANT/patch.diff"])
    meta["patch_applies"] = r.returncode == 0
    if r.returncode != 0:
        print("PATCH DOES NOT APPLY", r.stdout.decode()[-300:])
    else:
        meta["builds"] = run("go build ./...").returncode == 0
        b = subprocess.run(["/verif/tools/baseline.py"], env=dict(env, VERIF_REPO=wt), capture_output=True, text=True)
        meta["baseline_53_green_with_patch"] = b.returncode == 0
        d1 = run(demo, timeout=1800)
        meta["demo_with_patch_exit"] = d1.returncode
        meta["demo_with_patch_tail"] = d1.stdout.decode(errors="replace")[-400:]
        run(["git", "apply", "-R", "MUTANT/patch.diff"])
        d0 = run(demo, timeout=1800)
        meta["demo_without_patch_exit"] = d0.returncode
        run(["git", "apply", "MUTANT/patch.diff"])
        meta["demo_discriminates"] = d1.returncode != 0 and d0.returncode == 0
        meta["checks"] = {}
        for c in checks:
            p = subprocess.run(["./check", c, "--tier", "quick"], cwd="/verif", env=dict(env, VERIF_REPO=wt), capture_output=True, text=True)
            sigs = [l.strip()[len("signature: "):] for l in p.stdout.splitlines() if l.strip().startswith("signature:")]
            meta["checks"][c] = {"exit": p.returncode, "signatures": sigs[:6]}
finally:
    subprocess.run(["git", "-C", "/repo", "worktree", "remove", "--force", wt], capture_output=True)
    shutil.rmtree(wt, ignore_errors=True)
meta["demo_cmd"] = demo
mp = os.path.join(sd, "meta.json")
old = {}
if os.path.exists(mp):
    old = json.load(open(mp))
old.update(meta)
json.dump(old, open(mp, "w"), indent=1)
print(json.dumps({k: v for k, v in meta.items() if k != "demo_with_patch_tail"}, indent=1))
